\* A small stand-alone configuration of ClassDecor.tla (the driver verifkit/drivers/c13.py
\* generates its own configurations, one per group of universes; this is its mutant base).
SPECIFICATION Spec
CONSTANTS
  Rule = "nested"
  Mutant = "none"
  Optimized = FALSE
  VB = {"Fa"}
  VB2 = {"none"}
  VD = {"Fa", "Ca", "Fu"}
  VO = {"none"}
  VI = {"none", "Sa"}
  VDeep = {"none"}
  Aliases = {"none", "Aux", "DerivedAux", "Self"}
  DCs = {"none"}
  Orders = {"single", "memberclass", "membertwice"}
  Confs = {"D", "N"}
  Free = FALSE
  MaxOps = 2
  Emit = FALSE
INVARIANT RouteEq
INVARIANT ReturnsSelf
INVARIANT InheritedUntouched
INVARIANT AliasUntouched
INVARIANT ClassIdempotent
INVARIANT FuncIdempotent
INVARIANT NoopIdentity
INVARIANT OptimizedIdentity
INVARIANT Wraps
INVARIANT WrapsOriginal
INVARIANT DepthOne
INVARIANT KindKept
CHECK_DEADLOCK FALSE
