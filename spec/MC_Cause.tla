------------------------------ MODULE MC_Cause ------------------------------
(* Model-checking harness for Cause.tla: the hint grammar and object universe of    *)
(* MC_Semantics, enlarged by HOSTILE NEIGHBOURS - containers that hold an iterable    *)
(* which is not a collection (a generator, a one-shot iterator with or without        *)
(* __len__) next to the item that violates the hint.  The generated check never       *)
(* touches such an iterable; the explanation path walks the container again and       *)
(* must not touch it either.                                                          *)
(*                                                                                *)
(* Cause_Explains is the design property; the rows carry, for every (object, draw),   *)
(* the outcome of the explanation path so that the real message can be compared.      *)
EXTENDS MC_Semantics, Cause

Its   == { Iter("gen", <<i1>>), Iter("gen", <<>>), Iter("UIter", <<sa>>), Iter("USizedIter", <<i1>>) }
XObjs == { Cont("tuple", <<it, a>>) : it \in Its, a \in {i1, sa} }
   \cup  { Cont("tuple", <<a, it>>) : it \in Its, a \in {i1, sa} }
   \cup  { Cont(c, <<it>>) : c \in {"list", "tuple", "UColl"}, it \in Its }
   \cup  { Cont("list", <<it, a>>) : it \in Its, a \in {none} }
   \cup  { Map("dict", <<KV(sa, it)>>) : it \in Its }
   \cup  { Map("dict", <<KV(sa, Cont("tuple", <<it, a>>))>>) : it \in {Iter("gen", <<i1>>)}, a \in {i1, sa} }
XSeq == TLCEval(SetToSeq(XObjs))

\* hints that put a quasi-iterable (or another container) beside a sibling that can be violated
XHints == { HTupF(<<HQuasi(s, c), l>>) : s \in QuasiSigns, c \in {IntH, HAny}, l \in {IntH, StrH} }
    \cup  { HTupF(<<l, HQuasi(s, c)>>) : s \in {"Iterable"}, c \in {IntH, HAny}, l \in {IntH, StrH} }
    \cup  { HSeq("list", HUnion(<<HQuasi("Iterable", IntH), StrH>>)),
            HSeq("list", HQuasi("Iterable", IntH)), HReit("Collection", HQuasi("Iterable", StrH)),
            HMap("dict", StrH, HQuasi("Iterable", IntH)), HMap("dict", StrH, HTupF(<<HQuasi("Iterable", IntH), StrH>>)),
            HUnion(<<HTupF(<<HQuasi("Iterable", IntH), StrH>>), NoneH>>),
            HTupF(<<HShallow("Iterator"), IntH>>), HTupF(<<HShallow("Generator"), StrH>>),
            HTupF(<<HUnion(<<HQuasi("Container", IntH), NoneH>>), IntH>>) }
CHintSet == HintSet \cup XHints
CHintSeq == TLCEval(SetToSeq(CHintSet))
NCHint == TLCEval(Len(CHintSeq))

VARIABLES cph, chid
cvars == <<cph, chid, ph, hid>>
CInit == cph = 0 /\ chid = 0 /\ ph = 0 /\ hid = 0
CNext == /\ UNCHANGED <<ph, hid>>
         /\ \/ /\ cph = 0 /\ cph' = 1
               /\ chid' \in { 1 + k * CH : k \in 0 .. ((NCHint - 1) \div CH) }
            \/ /\ cph = 1 /\ cph' = 2
               /\ chid' \in { j \in chid .. (chid + CH - 1) : j <= NCHint }
CSpec == CInit /\ [][CNext]_cvars
CHint == CHintSeq[chid]
CActive == cph = 2

\* every seventh object of the base universe (rotating with the hint), all hostile neighbours
Pickn(s, i, k) == IF i > Len(s) THEN <<>> ELSE [n \in 1 .. ((Len(s) - i) \div k + 1) |-> s[i + (n - 1) * k]]
RowObjs == XSeq \o Pickn(OSeq, 1 + (chid % 7), 7)

\* C03 (design): a rejection is always explained - the finder neither reports "no cause" nor fails
Cause_Explains ==
  CActive => \A ci \in DOMAIN Confs : \A r \in Draws :
     /\ \A j \in 1..NObj : ~Chk(CHint, OSeq[j], r, Confs[ci]) => Cause(CHint, OSeq[j], r, Confs[ci]).f = "found"
     /\ \A j \in DOMAIN XSeq : ~Chk(CHint, XSeq[j], r, Confs[ci]) => Cause(CHint, XSeq[j], r, Confs[ci]).f = "found"
\* the antecedent of Cause_Explains is exercised for every hint that checks anything
Cause_NonVacuous ==
  (CActive /\ ~Ignorable(CHint)) => \/ \E j \in DOMAIN XSeq : \E r \in Draws : ~Chk(CHint, XSeq[j], r, Conf0)
                                    \/ \E j \in 1..NObj : \E r \in Draws : ~Chk(CHint, OSeq[j], r, Conf0)

CRow(ci) == LET c == Confs[ci]  hh == CHint  ph2 == Pub(CHint, c)  os == RowObjs IN
   [t |-> "row", hid |-> chid, conf |-> ci, h |-> hh, pub |-> ph2, ign |-> Ignorable(ph2), objs |-> os,
    code |-> [j \in 1..Len(os) |-> Code(ph2, os[j])],
    chk  |-> [j \in 1..Len(os) |-> ChkMask(hh, os[j], c, 0)],
    idx  |-> [j \in 1..Len(os) |-> IdxInfo(ph2, os[j])],
    cz   |-> [j \in 1..Len(os) |-> [r \in 1..Lcm |-> CauseStr(Cause(hh, os[j], r - 1, c))]]]
CEmitRows == (CActive /\ Emit) =>
              \A ci \in DOMAIN Confs : RelevantConf(CHint, ci) =>
                 JsonSerialize(IOEnv.ROW_DIR \o "/row_" \o ToString(chid) \o "_" \o ToString(ci) \o ".json", CRow(ci))
CEmitObjs == (cph = 0 /\ Emit) =>
              JsonSerialize(IOEnv.ROW_DIR \o "/objs.json", [t |-> "objs", objs |-> <<>>, confs |-> Confs, lcm |-> Lcm])
=============================================================================
