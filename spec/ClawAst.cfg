\* Stand-alone smoke configuration (the driver verifkit/drivers/c05.py generates its own):
\* intended design, slice "scope", every tree with <= 3 nodes.
CONSTANTS Slice = "scope" MaxNodes = 3 MaxDepth = 3 Legacy = {} Mutant = {} Emit = FALSE
CONSTANT Given = {}
INIT Init
NEXT Next
INVARIANT TypeOK
INVARIANT ScopesFaithful
INVARIANT WalkSubRule
INVARIANT WalkEqRule
INVARIANT DecoratedOnce
INVARIANT ChecksWellPlaced
INVARIANT LinePreserved
INVARIANT ImportPlaced
INVARIANT DecoIndexOK
INVARIANT EvalOnce
INVARIANT ScopeBalanced
