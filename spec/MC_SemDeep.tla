----------------------------- MODULE MC_SemDeep -----------------------------
(* Deeply nested hints (depth 3-4) with an object set derived FROM each hint:        *)
(* Good(h) builds conforming objects constructively, Near(h) builds near misses      *)
(* (wrong class, one bad item at each index, all items bad, wrong tuple length, bad   *)
(* key / bad value, ...).  The invariants are those of MC_Semantics and are decided   *)
(* by the general declarative operators (Sat, MustReject, Weak) - Good/Near only      *)
(* choose which objects are looked at, they are not trusted.                          *)
EXTENDS Semantics, SequencesExt, FiniteSetsExt, Json, IOUtils

CONSTANTS Depth,    \* nesting depth of the enumerated hints
          L,        \* maximal container length (3 => draw residues 0..5)
          Emit

IntH == HCls("int")  StrH == HCls("str")  NoneH == HCls("NoneType")
Leaves == { IntH, StrH, HAny, HLit(<<i1, sa>>), HCls("A"), HRecAlias(IntH), HRecAlias(StrH) }
Wrap(h) == { HSeq("list", h), HSeq("tuple", h), HSeq("Sequence", h), HReit("Collection", h), HReit("frozenset", h),
             HReit("deque", h), HQuasi("Iterable", h), HMap("dict", StrH, h), HMap("Mapping", h, IntH),
             HTupF(<<IntH, h>>), HTupF(<<h, StrH>>), HUnion(<<h, NoneH>>), HUnion(<<StrH, h>>) }
RECURSIVE HintsAt(_)
HintsAt(d) == IF d = 0 THEN Leaves ELSE UNION { Wrap(h) : h \in HintsAt(d - 1) }
\* nested unions of unions add nothing new structurally beyond depth 1: drop union-of-union chains
Interesting(h) == ~(h.k = "union" /\ \E i \in DOMAIN h.a : h.a[i].k = "union")
RecHints == { HRecAlias(IntH), HRecAlias(StrH), HRecAlias(HUnion(<<IntH, NoneH>>)), HRecAlias(HCls("A")) }
HintSet == { h \in HintsAt(Depth) : Interesting(h) } \cup RecHints
HintSeq == TLCEval(SetToSeq(HintSet))
NHint == TLCEval(Len(HintSeq))

(* ---------------------------------------------------------- objects from hints *)
Take(S, n) == LET q == SetToSeq(S) IN { q[i] : i \in 1..(IF Len(q) < n THEN Len(q) ELSE n) }
Hashable(x) == x.k \in {"atom", "type"} \/ (x.k = "cont" /\ x.cls \in {"tuple", "frozenset"} /\ \A i \in DOMAIN x.items : x.items[i].k = "atom")
ClsFor(h) == CASE h.s = "list" -> {"list"} [] h.s = "tuple" -> {"tuple"} [] h.s = "Sequence" -> {"tuple", "USeq"}
               [] h.s = "Collection" -> {"UColl", "list"} [] h.s = "frozenset" -> {"frozenset"}
               [] h.s = "deque" -> {"deque"} [] h.s = "Iterable" -> {"list", "UColl"} [] OTHER -> {"list"}
AnAtomNot(h) == IF ~Sat(h, none) THEN none ELSE IF ~Sat(h, f2) THEN f2 ELSE cj

BadAtomFor(h) == { y \in {none, f2, cj} : MustReject(h, y) }
RECURSIVE Good(_), Near(_)
SeqOver(S, n) == UNION { [1..k -> S] : k \in 0..n }
Good(h) ==
  CASE h.k = "any" -> {i1, sa}
    [] h.k = "cls" -> (CASE h.s = "int" -> {i1, bT} [] h.s = "str" -> {sa} [] h.s = "NoneType" -> {none}
                         [] h.s = "A" -> {oa, ob} [] OTHER -> {})
    [] h.k = "lit" -> { h.m[i] : i \in DOMAIN h.m }
    [] h.k = "union" -> UNION { Take(Good(h.a[i]), 2) : i \in DOMAIN h.a }
    [] h.k = "tupf" -> { Cont("tuple", <<a, b>>) : a \in Take(Good(h.a[1]), 2), b \in Take(Good(h.a[2]), 2) }
    [] h.k \in {"seq", "reit", "quasi"} ->
         LET g == Take(IF h.s = "frozenset" THEN { y \in Good(h.a[1]) : Hashable(y) } ELSE Good(h.a[1]), 2) IN
         { Cont(c, s) : c \in ClsFor(h),
                        s \in { t \in SeqOver(g, L) : Len(t) \in {0, 1, L} /\ (h.s # "frozenset" \/ \A i, j \in DOMAIN t : i # j => ~PyEq(t[i], t[j])) } }
         \cup (IF h.k = "quasi" THEN { Iter("gen", <<>>), Iter("UIter", <<none>>) } ELSE {})
    [] h.k = "rec" ->      \* conforming lists nested 1 .. 4 levels deep
         LET c == Take(Good(h.a[1]), 1)
             l1 == { Cont("list", <<y>>) : y \in c }   l2 == { Cont("list", <<y>>) : y \in l1 }
             l3 == { Cont("list", <<y>>) : y \in l2 }   l4 == { Cont("list", <<y>>) : y \in l3 } IN
         { Cont("list", <<>>) } \cup l1 \cup l2 \cup l3 \cup l4
         \cup { Cont("list", <<y, z>>) : y \in c, z \in l3 } \cup { Cont("list", <<z, y>>) : y \in c, z \in l2 }
    [] h.k = "map" ->
         LET gk == Take({ y \in Good(h.a[1]) : Hashable(y) }, 2)  gv == Take(Good(h.a[2]), 2) IN
         { Map("dict", <<>>) } \cup { Map(c, <<KV(k1, v)>>) : c \in {"dict", "UMap"}, k1 \in gk, v \in gv }
         \cup { Map("dict", <<KV(p[1], v), KV(p[2], w)>>) : p \in { q \in gk \X gk : ~PyEq(q[1], q[2]) }, v \in gv, w \in gv }
    [] OTHER -> {}
\* one representative violating object for a child position
BadFor(h) == LET n == Near(h) IN IF n = {} THEN {} ELSE Take({ y \in n : MustReject(h, y) }, 1)
PutAt(s, i, y) == [j \in DOMAIN s |-> IF j = i THEN y ELSE s[j]]
Near(h) ==
  CASE h.k \in {"cls", "lit"} -> { AnAtomNot(h), Cont("list", <<i1>>) }
    [] h.k = "any" -> {}
    [] h.k = "union" -> Take(UNION { Near(h.a[i]) : i \in DOMAIN h.a }, 6)
    [] h.k = "tupf" ->
         { AnAtomNot(h), Cont("tuple", <<>>), Cont("list", <<i1, sa>>) }
         \cup { Cont("tuple", <<a, b, b>>) : a \in Take(Good(h.a[1]), 1), b \in Take(Good(h.a[2]), 1) }
         \cup { Cont("tuple", <<a, b>>) : a \in BadFor(h.a[1]), b \in Take(Good(h.a[2]), 1) }
         \cup { Cont("tuple", <<a, b>>) : a \in Take(Good(h.a[1]), 1), b \in BadFor(h.a[2]) }
    [] h.k \in {"seq", "reit", "quasi"} ->
         LET g == Take(IF h.s = "frozenset" THEN { y \in Good(h.a[1]) : Hashable(y) } ELSE Good(h.a[1]), 1)
             b == IF h.s = "frozenset" THEN { y \in BadFor(h.a[1]) : Hashable(y) } ELSE BadFor(h.a[1])
             full == { [i \in 1..L |-> y] : y \in g } IN
         { AnAtomNot(h), Map("dict", <<KV(sa, i1)>>) }
         \cup { Cont(c, PutAt(s, i, y)) : c \in ClsFor(h), s \in (IF h.s = "frozenset" THEN {} ELSE full), i \in 1..L, y \in b }
         \cup { Cont(c, [i \in 1..k |-> y]) : c \in ClsFor(h), k \in (IF h.s = "frozenset" THEN {1} ELSE {1, L}), y \in b }
         \cup (IF h.s = "frozenset" THEN { Cont("frozenset", <<p[1], p[2]>>) : p \in { q \in g \X b : ~PyEq(q[1], q[2]) } }
                                       \cup { Cont("frozenset", <<p[2], p[1]>>) : p \in { q \in g \X b : ~PyEq(q[1], q[2]) } } ELSE {})
    [] h.k = "rec" ->
         { AnAtomNot(h), Cont("tuple", <<i1>>) } \cup { Cont("list", <<y>>) : y \in BadAtomFor(h.a[1]) }
         \cup { Cont("list", <<y, y>>) : y \in BadAtomFor(h.a[1]) }
    [] h.k = "map" ->
         LET gk == Take({ y \in Good(h.a[1]) : Hashable(y) }, 1)  gv == Take(Good(h.a[2]), 1)
             bk == { y \in BadFor(h.a[1]) : Hashable(y) }  bv == BadFor(h.a[2]) IN
         { AnAtomNot(h), Cont("list", <<sa>>) }
         \cup { Map("dict", <<KV(k1, v)>>) : k1 \in bk, v \in gv } \cup { Map("dict", <<KV(k1, v)>>) : k1 \in gk, v \in bv }
         \cup { Map("dict", <<KV(p[1], v), KV(p[2], w)>>) : p \in { q \in gk \X bk : ~PyEq(q[1], q[2]) }, v \in gv, w \in gv }
         \cup { Map("UMap", <<KV(p[1], v), KV(p[2], w)>>) :
                   p \in { q \in gk \X Take({ y \in Good(h.a[1]) : Hashable(y) }, 3) : ~PyEq(q[1], q[2]) }, v \in gv, w \in bv }
    [] OTHER -> {}
Cases(h) == Good(h) \cup Near(h)

(* ----------------------------------------------------------- state machine *)
Lcm == CASE L = 1 -> 1 [] L = 2 -> 2 [] L = 3 -> 6
Draws == 0 .. (Lcm - 1)
Confs == << Conf(TRUE, FALSE, FALSE), Conf(FALSE, FALSE, FALSE) >>
CH == 8
VARIABLES ph, hid
vars == <<ph, hid>>
Init == ph = 0 /\ hid = 0
Next == \/ /\ ph = 0 /\ ph' = 1 /\ hid' \in { 1 + k * CH : k \in 0 .. ((NHint - 1) \div CH) }
        \/ /\ ph = 1 /\ ph' = 2 /\ hid' \in { j \in hid .. (hid + CH - 1) : j <= NHint }
Spec == Init /\ [][Next]_vars
Hint == HintSeq[hid]
Active == ph = 2
CS == SetToSeq(Cases(Hint))

Deep_NoFalseAlarm ==
  Active => \A ci \in DOMAIN Confs : \A j \in DOMAIN CS : \A r \in Draws : Sat(Hint, CS[j]) => Chk(Hint, CS[j], r, Confs[ci])
Deep_MustReject ==
  Active => \A ci \in DOMAIN Confs : \A j \in DOMAIN CS : \A r \in Draws : MustReject(Hint, CS[j]) => ~Chk(Hint, CS[j], r, Confs[ci])
Deep_AcceptedIsWeak ==
  Active => \A ci \in DOMAIN Confs : \A j \in DOMAIN CS : \A r \in Draws : Chk(Hint, CS[j], r, Confs[ci]) => Weak(Hint, CS[j])
SeqLike(h, x) == \/ h.k = "seq" /\ InstOf(x, h.s)
                 \/ h.k = "quasi" /\ InstOf(x, h.s) /\ InstOf(x, "Sequence")
Deep_EveryIndexReachable ==
  Active => \A j \in DOMAIN CS :
     SeqLike(Hint, CS[j]) => \A i \in 1..LenOf(CS[j]) :
        MustReject(Hint.a[1], ItemsOf(CS[j])[i]) => \E r \in Draws : ~Chk(Hint, CS[j], r, Conf0)
Deep_ReadBound ==
  Active => \A j \in DOMAIN CS : \A r \in Draws : Ev(Hint, CS[j], r, Conf0).rd <= ReadBound(Hint)
\* the constructive sets do what their names say (they are only a selection, but an empty selection is vacuous)
Deep_NonVacuous ==
  Active => /\ \E j \in DOMAIN CS : Sat(Hint, CS[j])
            /\ (~Ignorable(Hint)) => \E j \in DOMAIN CS : MustReject(Hint, CS[j])

Bit(b, w) == IF b THEN w ELSE 0
Code(h, x) == Bit(Sat(h, x), 1) + Bit(SatB(h, x), 2) + Bit(MustReject(h, x), 4) + Bit(Weak(h, x), 8)
RECURSIVE ChkMask(_, _, _, _)
ChkMask(h, x, c, r) == IF r >= Lcm THEN 0 ELSE Bit(Chk(h, x, r, c), 2 ^ r) + ChkMask(h, x, c, r + 1)
RECURSIVE BadMask(_, _, _)
BadMask(hc, its, i) == IF i > Len(its) THEN 0 ELSE Bit(MustReject(hc, its[i]), 2 ^ (i - 1)) + BadMask(hc, its, i + 1)
IdxInfo(h, x) == IF SeqLike(h, x) /\ LenOf(x) > 0
                 THEN BadMask(h.a[1], ItemsOf(x), 1) + Bit(Sat(h.a[1], ItemsOf(x)[1]), 64) + 128 ELSE 0
Row(ci) == LET c == Confs[ci]  hh == Hint  os == CS IN
   [t |-> "row", hid |-> hid, conf |-> ci, h |-> hh, pub |-> hh, ign |-> Ignorable(hh), objs |-> os,
    code |-> [j \in 1..Len(os) |-> Code(hh, os[j])],
    chk  |-> [j \in 1..Len(os) |-> ChkMask(hh, os[j], c, 0)],
    idx  |-> [j \in 1..Len(os) |-> IdxInfo(hh, os[j])]]
EmitRows == (Active /\ Emit) => \A ci \in DOMAIN Confs :
              JsonSerialize(IOEnv.ROW_DIR \o "/row_" \o ToString(hid) \o "_" \o ToString(ci) \o ".json", Row(ci))
EmitObjs == (ph = 0 /\ Emit) =>
              JsonSerialize(IOEnv.ROW_DIR \o "/objs.json", [t |-> "objs", objs |-> <<>>, confs |-> Confs, lcm |-> Lcm])
=============================================================================
