------------------------------ MODULE Outcomes ------------------------------
(* C11 -- only beartype's own exceptions for bad hints; user exceptions pass through.  *)
(*                                                                                      *)
(* A taxonomy and an outcome automaton (DESIGN.md section 6: no deep state).            *)
(*                                                                                      *)
(*  * The exception / warning class forest is NOT written here: it is extracted from    *)
(*    the working tree's beartype.roar at run time by drivers/c11.py and read from the  *)
(*    ndjson file named by the environment variable C11_FOREST (one line per class:     *)
(*    name, parents, public).  Class membership is evaluated below, in TLA+.            *)
(*  * The grammar of malformed hints (defect kind / variant x position), the entry      *)
(*    points and the user raise points are the constants of the enumeration; TLC        *)
(*    enumerates the feasible product and emits it as the case table (Emit = TRUE).     *)
(*  * The automaton has one action per control point of the real code that can          *)
(*    produce, transform or let escape an exception:                                    *)
(*      MemoProbe   checkmake.make_func_checker / utilcachecall.callable_cached:        *)
(*                  dictionary probe, "except TypeError" fallback to the uncached path  *)
(*      Sanify      utilhinttest.die_unless_hint, utilpeptest.die_if_hint_pep_unsupported*)
(*      CodeGen     the breadth-first visit of child hints (arity, signs, PEP 586/593), *)
(*                  with the isinstance(None, cls) probes of clspep3119 (user code!)    *)
(*      Warn        warnings recorded during code generation are played back            *)
(*      Unwind      "except Exception: reraise_exception_placeholder(...)" of           *)
(*                  checkmake / _wrapargs / _wrapreturn: same object, same traceback    *)
(*      Quiet / ArgCheck / ArgCheck2 / Body   the generated wrapper or tester: no       *)
(*                  handler at all between user code and the caller                     *)
(*      Report      the error path (get_func_pith_violation) re-walks hint and object   *)
(*      Wrap / Compare   beartype.door.TypeHint (construction, methods), is_subhint     *)
(*      ReturnOk / Escape   the value or the exception leaves the public API            *)
(*  * Judge is the declarative restatement of the property: the set of clauses of the   *)
(*    statement that an observed outcome breaks.  The invariants say it is empty.       *)
(*  * Legacy switches on deviations: "unguarded_hash" is what 0.23.0 does (F6);         *)
(*    "reraise_copies", "private_default", "unguarded_recursion", "report_wraps_user",  *)
(*    "decor_class_at_call", "cache_unvalidated_referent" (a forward reference's        *)
(*    referent is memoised before it is validated: the first call reports it, later     *)
(*    calls hand it to issubclass()) are plausible wrong designs (spec mutants).        *)
(*                                                                                      *)
(* trace/OutcomesTrace.tla re-uses Obs*, Judge and the forest to judge recorded runs.   *)
EXTENDS Naturals, Sequences, FiniteSets, TLC, Json, IOUtils

CONSTANTS Legacy,        \* set of deviation names switched on
          Emit,          \* BOOLEAN: print one JSON row per enumerated case
          Combos,        \* BOOLEAN: also enumerate defect-and-raise-point cases
          Reps,          \* BOOLEAN: one representative class per layer (which class is incidental)
          KindsOn,       \* defect kinds enumerated (all of Kinds, or a focus for the mutant runs)
          MaxCalls,      \* observed API entries per case
          Abstract       \* BOOLEAN: explore one representative per attribute class of cases

-----------------------------------------------------------------------------
(* The forest, extracted at run time.                                                   *)
ForestLog  == ndJsonDeserialize(IOEnv.C11_FOREST)
ClassRecs  == TLCEval({ ForestLog[i] : i \in DOMAIN ForestLog })
Classes    == TLCEval({ r.name : r \in ClassRecs })
RecOf(n)   == CHOOSE r \in ClassRecs : r.name = n
ParentsOf  == TLCEval([ n \in Classes |-> { RecOf(n).parents[k] : k \in DOMAIN RecOf(n).parents } ])
PublicSet  == TLCEval({ r.name : r \in { q \in ClassRecs : q.public } })

RECURSIVE UpClosure(_)
UpClosure(S) == LET N == S \cup UNION { ParentsOf[x] : x \in S \cap Classes }
                IN  IF N = S THEN S ELSE UpClosure(N)
AncStar    == TLCEval([ n \in Classes |-> UpClosure({n}) ])        \* reflexive ancestors

IsA(cls, anc)   == cls \in Classes /\ anc \in AncStar[cls]
Public(cls)     == cls \in PublicSet
PublicDesc(anc) == { n \in Classes : anc \in AncStar[n] /\ n \in PublicSet }
Private(cls)    == cls \in Classes /\ cls \notin PublicSet

Root     == "BeartypeException"
DecorTop == "BeartypeDecorException"
CallTop  == "BeartypeCallException"
WarnTop  == "BeartypeWarning"
Needed   == { Root, DecorTop, CallTop, WarnTop, "BeartypeCallHintViolation", "BeartypeDecorHintViolation",
              "BeartypeDoorException", "BeartypeDoorHintViolation", "BeartypeDecorHintNonpepException",
              "BeartypeDecorHintPepException", "BeartypeDoorNonpepException",
              "BeartypeCallHintForwardRefException", "BeartypeDecorHintPep3119Exception",
              "BeartypeDecorHintForwardRefException", "BeartypeCallHintException", "BeartypeDecorHintException",
              "BeartypeDecorHintRecursionException", "BeartypeCallHintParamViolation" }

\* the extraction is usable: the named tops exist and are public, parents are closed,
\* the public tops are where the statement says they are
ASSUME ForestSane ==
  /\ Needed \subseteq PublicSet
  /\ \A n \in Classes : ParentsOf[n] \subseteq Classes
  /\ IsA(DecorTop, Root) /\ IsA(CallTop, Root) /\ ~IsA(WarnTop, Root)
  /\ ~IsA(DecorTop, CallTop) /\ ~IsA(CallTop, DecorTop)
  /\ \E n \in Classes : Private(n) /\ IsA(n, Root)          \* underscore classes do exist

-----------------------------------------------------------------------------
(* The grammar.                                                                         *)
Entries == { "decorate", "call", "is_bearable", "die_if_unbearable", "TypeHint", "is_subhint" }

VarsOf == [
  nonhint     |-> { "int", "float", "bytes", "module", "instance", "lambda", "bool", "notimplemented", "typetuple" },
  unhashable  |-> { "list", "dict", "set", "bytearray", "userobj" },
  arity       |-> { "dict1", "dict3", "list2", "tuple_mid_ellipsis", "tuple_lead_ellipsis", "tuple_only_ellipsis",
                    "type2", "callable1", "callable3", "generator1", "typing_dict1", "typing_callable_bad",
                    "frozenset2", "mapping1", "empty_tuple_args" },
  unsupported |-> { "typeguard_param", "paramspec", "paramspec_args", "concatenate", "unpack", "typevartuple",
                    "required", "classvar", "final", "self_outside", "noreturn_param", "never", "bare_generic",
                    "bare_protocol", "bare_literal", "bare_annotated", "bare_union", "bare_optional",
                    "bare_classvar", "typealias", "newtype_of_bad", "typeddict_inst", "namedtuple_bad",
                    "typevar_bad_bound", "generic_alias_of_instance", "generic_alias_origin_str",
                    "union_type_call", "literalstring" },
  malformed   |-> { "list_int_inst", "list_float", "dict_ints", "type_int_inst", "tuple_int_inst",
                    "callable_bad_params", "callable_params_not_list", "set_lambda", "list_module", "iter_bytes",
                    "userclass_subscript", "fake_origin", "fake_origin_badargs", "fake_typing_module",
                    "fake_typing_repr", "getattr_raises_attrerr" },
  string      |-> { "unresolvable", "unresolvable_dotted", "unresolvable_module", "syntax_binop",
                    "syntax_open_bracket", "syntax_two_names", "empty", "blank", "expr_int", "expr_call",
                    "sub_unresolvable", "sub_bad", "lambda", "dunder", "nonascii", "newline", "fwdref_obj_bad",
                    "fwdref_obj_syntax" },
  fwdref      |-> { "undefined", "nonclass_alias", "nonhint_int", "defined_later", "valid_class" },
  annotated   |-> { "validator_then_foreign", "foreign_then_validator", "foreign_between", "factory_unsubscripted",
                    "factory_isattr_unsubscripted", "only_foreign_unhashable", "validator_and_unhashable",
                    "nested_mixed", "metahint_bad", "validator_negated_mixed", "isinstance_mixed",
                    "issubclass_mixed" },
  literal     |-> { "list", "dict", "set", "userobj", "float", "object", "type", "empty",
                    "nested_tuple_unhashable", "mixed_ok_unhashable", "ellipsis" },
  noneellipsis|-> { "ellipsis_root", "list_ellipsis", "dict_ellipsis_key", "type_none", "type_ellipsis",
                    "callable_none", "callable_ellipsis_ret", "none_none", "nonetype_subscript",
                    "tuple_none_ellipsis", "notimplemented_child" },
  recursive   |-> { "list_in_itself", "alias_args_cycle", "pep695_self", "pep695_direct", "pep695_mutual",
                    "pep695_bad_value", "pep695_raises", "string_self", "newtype_cycle", "typevar_bound_self" },
  deep        |-> { "list_nest_110", "list_nest_300", "list_nest_850", "union_nest_80", "union_nest_150",
                    "tuple_nest_110", "tuple_nest_300", "string_nest_110", "string_nest_300",
                    "annotated_nest_110", "wide_union_300", "wide_tuple_300", "wide_literal_2000" } ]

Kinds      == DOMAIN VarsOf
DefectVars == UNION { { <<k, v>> : v \in VarsOf[k] } : k \in Kinds }
NoDefect   == <<"none", "none">>

Positions  == { "root", "child", "union", "union604", "optional", "key", "value", "tuplepos", "tuplevar",
                "metahint", "typearg" }
CheckRPs   == { "validator", "instancecheck", "subclasscheck", "eq", "len", "getitem", "iter" }
RaisePoints == { "none", "callable" } \cup CheckRPs
Slots      == { "param", "ret" }

\* attributes of a defect the automaton looks at (which fault source it can feed)
Unhashable(d) == \/ d[1] = "unhashable"
                 \/ d[1] = "literal" /\ d[2] \in { "list", "dict", "set", "userobj", "nested_tuple_unhashable",
                                                   "mixed_ok_unhashable" }
                 \/ d[1] = "annotated" /\ d[2] \in { "only_foreign_unhashable", "validator_and_unhashable" }
                 \/ d[1] = "recursive" /\ d[2] \in { "list_in_itself", "alias_args_cycle" }
Bottomless(d) == d[1] \in { "recursive", "deep" }
\* "fwdref": a dotted string whose referent is, when first looked up (at call time): undefined; a valid hint
\* that is not a class (a subscripted alias); a non-hint object; undefined at first and a class from the
\* second look-up on; a class (control)
BadReferent(d) == d[1] = "fwdref" /\ d[2] \in { "nonclass_alias", "nonhint_int" }   \* resolves, but is unusable
Lazy(d)       == \/ d[1] \in { "string", "recursive", "fwdref" }  \* may be detected only when called
                 \/ d \in { << "annotated", "metahint_bad" >>, << "unsupported", "typevar_bad_bound" >>,
                            << "malformed", "userclass_subscript" >> }
ComboKinds    == { "string", "literal", "annotated" }

\* rept: how often the same wrapper / the same door query is invoked (1, or 3 times with the same object)
Mk(e, d, p, r, n, s) == [ entry |-> e, defect |-> d, pos |-> p, rp |-> r, nth |-> n, slot |-> s, rept |-> 1 ]
Decorating   == { "decorate", "call" }
OnDefects    == { d \in DefectVars : d[1] \in KindsOn }
ControlCases == { Mk(e, NoDefect, "root", "none", 1, "param") : e \in Entries }
                \cup { Mk(e, NoDefect, "root", "none", 1, "ret") : e \in Decorating }
DefectCases(D, P) ==
                { Mk(e, d, p, "none", 1, "param") : e \in Entries, d \in D, p \in P }
                \cup { Mk(e, d, p, "none", 1, "ret") : e \in Decorating, d \in D, p \in P \cap { "root", "child" } }
RaiseCases(P) == { Mk(e, NoDefect, p, r, n, "param") : e \in Entries, p \in P, r \in CheckRPs, n \in { 1, 2 } }
                \cup { Mk("call", NoDefect, "root", "callable", 1, "param") }
ComboCases(D, P) ==
                IF Combos
                THEN { Mk(e, d, p, r, 1, "param") : e \in { "call", "is_bearable", "die_if_unbearable" },
                         d \in { x \in D : x[1] \in ComboKinds }, p \in P \cap { "root", "child" }, r \in CheckRPs }
                ELSE {}
OnceCases(D, P) == ControlCases \cup DefectCases(D, P) \cup RaiseCases(P) \cup ComboCases(D, P)
\* memoised failures show on the n-th invocation only: repeat whatever is decided at call time
Repeatable(k)   == \/ k.defect = NoDefect /\ k.nth = 1
                   \/ k.defect[1] \in { "string", "fwdref" } /\ k.rp = "none"
CasesOver(D, P) == LET B == OnceCases(D, P) IN B \cup { [ k EXCEPT !.rept = 3 ] : k \in { b \in B : Repeatable(b) } }
Cases == TLCEval(CasesOver(OnDefects, Positions))

\* what the product above is meant to be (checked, not used for the enumeration)
Feasible(c) ==
  /\ c.rept \in { 1, 3 } /\ (c.rept = 3 => Repeatable(c))
  /\ c.slot = "ret" => c.entry \in Decorating /\ c.rp = "none" /\ c.pos \in { "root", "child" }
  /\ c.rp = "callable" => c.entry = "call" /\ c.defect = NoDefect /\ c.pos = "root"
  /\ c.nth = 2 => c.rp \in CheckRPs /\ c.defect = NoDefect
  /\ c.defect = NoDefect /\ c.rp = "none" => c.pos = "root"          \* the well-formed control case
  /\ c.defect # NoDefect /\ c.rp # "none" =>
        /\ Combos /\ c.rp \in CheckRPs /\ c.defect[1] \in ComboKinds
        /\ c.pos \in { "root", "child" } /\ c.entry \in { "call", "is_bearable", "die_if_unbearable" }
ASSUME GrammarSane == /\ \A c \in Cases : Feasible(c)
                      /\ KindsOn \subseteq Kinds

CaseRow(c) == [ entry |-> c.entry, defect |-> c.defect[1], var |-> c.defect[2], pos |-> c.pos,
                rp |-> c.rp, nth |-> c.nth, slot |-> c.slot, rept |-> c.rept ]

-----------------------------------------------------------------------------
(* Outcomes: one uniform record shape.                                                  *)
(*   kind   "none" | "ok" | "exc" | "user"                                              *)
(*   cls    a forest class name, or "py:<Name>" (builtin), or "ext:<Name>" (foreign)    *)
(*   uid    identity token of the user's exception object (0 = not a user exception)    *)
(*   intact the user's object still carries its traceback anchor, args and chain        *)
NoExc         == [ kind |-> "none", cls |-> "", uid |-> 0, intact |-> TRUE ]
OkOut         == [ kind |-> "ok",   cls |-> "", uid |-> 0, intact |-> TRUE ]
Exc(cls)      == [ kind |-> "exc",  cls |-> cls, uid |-> 0, intact |-> TRUE ]
UserExc(u, i) == [ kind |-> "user", cls |-> "ext:UserBoom", uid |-> u, intact |-> i ]

Clause(name, cond) == IF cond THEN { name } ELSE {}

(* THE PROPERTY.  phase: which part of the public API is being observed;                *)
(* raised: user exception objects raised since the entry; rpith: one of them was raised *)
(* while user code was checking the object under test ("reached during a call");        *)
(* warns: classes of the warnings emitted; o: what came out.                            *)
DecorOk(cls) == IsA(cls, DecorTop) \/ IsA(cls, "BeartypeDecorHintViolation")
CallOk(cls)  == IsA(cls, CallTop)  \/ IsA(cls, "BeartypeCallHintViolation")

Judge(phase, raised, rpith, warns, o) ==
     Clause("foreign_exception",  o.kind = "exc" /\ o.cls \notin Classes)
\cup Clause("private_exception",  o.kind = "exc" /\ Private(o.cls))
\cup Clause("not_a_beartype_exception", o.kind = "exc" /\ Public(o.cls) /\ ~IsA(o.cls, Root))
\cup Clause("phase_split", /\ o.kind = "exc" /\ Public(o.cls) /\ IsA(o.cls, Root)
                           /\ \/ phase = "decor" /\ ~DecorOk(o.cls)
                              \/ phase = "call"  /\ ~CallOk(o.cls))
\cup Clause("user_exception_replaced", rpith /\ phase \in { "call", "door" } /\ o.kind # "user")
\cup Clause("user_exception_not_raised", o.kind = "user" /\ o.uid \notin raised)
\cup Clause("user_exception_altered",  o.kind = "user" /\ ~o.intact)
\cup Clause("foreign_warning", \E w \in warns : ~(Public(w) /\ IsA(w, WarnTop)))

-----------------------------------------------------------------------------
(* The observable part of the automaton (shared with the trace specification).          *)
ObsInit == [ phase |-> "idle", raised |-> {}, nraise |-> 0, rpith |-> FALSE, warns |-> {}, nwarn |-> 0,
             out |-> NoExc, verdict |-> {} ]
ObsEnter(o, ph)       == [ ObsInit EXCEPT !.phase = ph ]
ObsUserRaise(o, u, p) == [ o EXCEPT !.raised = @ \cup { u }, !.nraise = @ + 1,
                                    !.rpith = @ \/ (p /\ o.phase \in { "call", "door" }) ]
ObsWarn(o, w)         == [ o EXCEPT !.warns = @ \cup { w }, !.nwarn = @ + 1 ]
ObsReturn(o, outc)    == [ o EXCEPT !.out = outc, !.phase = "idle",
                                    !.verdict = Judge(o.phase, o.raised, o.rpith, o.warns, outc) ]

-----------------------------------------------------------------------------
(* The automaton looks at a case only through these attributes.  With Abstract = TRUE   *)
(* (quick tier) one representative case per attribute class is explored; with FALSE     *)
(* every enumerated case is explored separately.  The case table is always complete.    *)
AbsCase(k) == [ entry |-> k.entry, rp |-> k.rp, nth |-> k.nth, defective |-> k.defect # NoDefect,
                unhashable |-> Unhashable(k.defect), bottomless |-> Bottomless(k.defect),
                lazy |-> Lazy(k.defect), badref |-> BadReferent(k.defect) ]
Sig(d)     == << Unhashable(d), Bottomless(d), Lazy(d), BadReferent(d), d[1] \in ComboKinds >>
RepDefects == { CHOOSE d \in OnDefects : Sig(d) = g : g \in { Sig(d) : d \in OnDefects } }
InitCases  == TLCEval(IF Abstract THEN CasesOver(RepDefects, { "root" }) ELSE Cases)
\* every defect has a representative with the same attributes (positions and slots are not looked at)
ASSUME RepsCover == \A d \in OnDefects : \E r \in RepDefects : Sig(r) = Sig(d)

VARIABLES c,        \* the case (fixed along a behaviour)
          pc,       \* control point
          obs,      \* observable record, see ObsInit
          flight,   \* exception in flight (NoExc when none)
          reach,    \* how often the user raise point was reached
          calls,    \* observed entries so far (bounds the behaviour)
          refc      \* the forward-reference proxy's memo of its referent: "none" | "bad"
vars == << c, pc, obs, flight, reach, calls, refc >>

Init == /\ c \in InitCases
        /\ pc = "idle" /\ obs = ObsInit /\ flight = NoExc /\ reach = 0 /\ calls = 0 /\ refc = "none"

Defective == c.defect # NoDefect
Rep(S)   == IF Reps THEN { CHOOSE x \in S : TRUE } ELSE S
\* which classes a layer raises (evaluated once); which one of them is incidental
DecorHintL == TLCEval(Rep(PublicDesc("BeartypeDecorHintException")))
CallHintL  == TLCEval(Rep(PublicDesc("BeartypeCallHintException")))
DoorL      == TLCEval(Rep(PublicDesc("BeartypeDoorException")))
FwdCallL   == TLCEval(Rep(PublicDesc("BeartypeCallHintForwardRefException")))
FwdDecorL  == TLCEval(Rep(PublicDesc("BeartypeDecorHintForwardRefException")))
ViolL      == TLCEval(Rep(PublicDesc("BeartypeCallHintViolation") \ { "BeartypeDoorHintViolation" }))
WarnL      == TLCEval(Rep(PublicDesc(WarnTop)))
DecorL     == TLCEval(Rep(PublicDesc("BeartypeDecorHintException")) \cup Rep(PublicDesc(DecorTop)))
Layer(ph)  == CASE ph = "decor" -> DecorL
                [] ph = "call"  -> CallHintL
                [] OTHER        -> DecorHintL \cup DoorL

Bump      == IF reach < 2 THEN reach + 1 ELSE reach      \* only "reached nth times yet?" matters
Throw(e)  == flight' = e /\ pc' = "unwind"
Stay      == UNCHANGED << c, refc, reach, calls >>

(* ---- entries ---------------------------------------------------------------------- *)
Decorate ==
  /\ pc = "idle" /\ calls = 0 /\ c.entry \in { "decorate", "call" }
  /\ obs' = ObsEnter(obs, "decor") /\ pc' = "memo" /\ calls' = 1
  /\ UNCHANGED << c, refc, flight, reach >>
Call ==
  /\ pc = "decorated" /\ c.entry = "call" /\ calls < MaxCalls
  /\ obs' = ObsEnter(obs, "call") /\ pc' = "argcheck" /\ calls' = calls + 1
  /\ UNCHANGED << c, refc, flight, reach >>
DoorCheck ==
  /\ \/ pc = "idle" /\ calls < MaxCalls /\ c.entry \in { "is_bearable", "die_if_unbearable" }
     \/ pc = "wrapped" /\ c.entry = "TypeHint" /\ calls < MaxCalls
  /\ obs' = ObsEnter(obs, "door") /\ pc' = "memo" /\ calls' = calls + 1
  /\ UNCHANGED << c, refc, flight, reach >>
MakeTypeHint ==      \* TypeHint(hint), and later the wrapper's own methods (children are wrapped lazily)
  /\ c.entry = "TypeHint" /\ ((pc = "idle" /\ calls = 0) \/ (pc = "wrapped" /\ calls < MaxCalls))
  /\ obs' = ObsEnter(obs, "hint") /\ pc' = "wrap" /\ calls' = calls + 1
  /\ UNCHANGED << c, refc, flight, reach >>
IsSubhint ==
  /\ pc = "idle" /\ calls < MaxCalls /\ c.entry = "is_subhint"
  /\ obs' = ObsEnter(obs, "hint") /\ pc' = "wrap" /\ calls' = calls + 1
  /\ UNCHANGED << c, refc, flight, reach >>

(* ---- decoration-like stages (decorator and door functions share them) -------------- *)
MemoProbe ==        \* hint_conf_exception_prefix_to_func_checker.get(CACHE_KEY); except TypeError
  /\ pc = "memo" /\ pc' = "sanify"
  /\ UNCHANGED << c, refc, obs, flight, reach, calls >>
Sanify ==
  /\ pc = "sanify" /\ Stay /\ UNCHANGED obs
  /\ \/ pc' = "codegen" /\ UNCHANGED flight
     \/ Defective /\ \E k \in Layer(obs.phase) : Throw(Exc(k))
     \/ Defective /\ Unhashable(c.defect) /\ "unguarded_hash" \in Legacy /\ Throw(Exc("py:TypeError"))
     \/ Defective /\ "private_default" \in Legacy /\ Throw(Exc("_BeartypeUtilCallableException"))
CodeGen ==
  /\ pc = "codegen" /\ UNCHANGED << c, refc, calls >>
  /\ \/ /\ pc' = IF obs.phase = "decor" THEN "return_ok" ELSE "argcheck"
        /\ UNCHANGED << flight, obs, reach >>
     \/ Defective /\ UNCHANGED << obs, reach >> /\ \E k \in Layer(obs.phase) : Throw(Exc(k))
     \/ /\ Defective /\ Bottomless(c.defect) /\ UNCHANGED << obs, reach >>
        /\ Throw(IF "unguarded_recursion" \in Legacy THEN Exc("py:RecursionError")
                 ELSE Exc("BeartypeDecorHintRecursionException"))
     \/ \* the tester variant of the same probe (is_object_isinstanceable) swallows what the hook raises
        /\ c.rp \in { "instancecheck", "subclasscheck" } /\ reach + 1 >= c.nth /\ obs.nraise < 2
        /\ reach' = Bump /\ obs' = ObsUserRaise(obs, 1, FALSE) /\ UNCHANGED << pc, flight >>
     \/ \* clspep3119: isinstance(None, cls) / issubclass(type, cls) run the user's metaclass hook
        /\ c.rp \in { "instancecheck", "subclasscheck" } /\ reach + 1 >= c.nth
        /\ reach' = Bump /\ obs' = ObsUserRaise(obs, 1, FALSE)
        /\ \/ Throw(UserExc(1, TRUE))                                   \* "sufficient": re-raised as is
           \/ \E k \in Layer(obs.phase) : Throw(Exc(k))                  \* raise exception_cls(...) from it

Warn ==             \* warnings recorded during code generation are played back (checkmake)
  /\ pc \in { "codegen", "wrap" } /\ obs.nwarn < 3 /\ UNCHANGED << c, refc, pc, flight, reach, calls >>
  /\ \E w \in WarnL : obs' = ObsWarn(obs, w)

Unwind ==           \* except Exception as exception: reraise_exception_placeholder(exception, ...)
  /\ pc = "unwind" /\ pc' = "escape" /\ UNCHANGED << c, refc, obs, reach, calls >>
  /\ flight' = IF "reraise_copies" \in Legacy /\ flight.kind = "user"
               THEN Exc(flight.cls)       \* a new object of the same class with the edited message
               ELSE flight                \* raise exception.with_traceback(exception.__traceback__)

(* ---- the generated wrapper / checker: no handler between user code and the caller --- *)
Quiet ==            \* the user's hook is reached but does not raise yet (it raises from the nth reach on)
  /\ obs.phase # "idle" /\ c.rp \in CheckRPs /\ reach + 1 < c.nth
  /\ reach' = Bump /\ UNCHANGED << c, refc, pc, obs, flight, calls >>
UserPoint ==
  /\ c.rp \in CheckRPs /\ reach + 1 >= c.nth /\ reach' = Bump
  /\ obs' = ObsUserRaise(obs, 1, TRUE) /\ flight' = UserExc(1, TRUE) /\ pc' = "escape"
ArgCheck ==
  /\ pc = "argcheck" /\ UNCHANGED << c, refc, calls >>
  /\ \/ UserPoint
     \/ pc' = "argcheck2" /\ UNCHANGED << obs, flight, reach >>
ArgCheck2 ==
  /\ pc = "argcheck2" /\ UNCHANGED << c, calls, obs, reach >>
  /\ \/ /\ pc' = (IF obs.phase = "call" THEN "body" ELSE "return_ok")                         \* satisfied
        /\ UNCHANGED << flight, refc >>
     \/ pc' = "report" /\ UNCHANGED << flight, refc >>                                         \* violated
     \/ \* a forward reference is resolved now (fwdrefmeta.__resolved_type_beartype__): the referent is
        \* looked up, VALIDATED, and only then memoised in the proxy; an unusable referent is reported
        /\ Defective /\ Lazy(c.defect) /\ refc = "none" /\ pc' = "escape"
        /\ \E k \in (IF "decor_class_at_call" \in Legacy THEN FwdDecorL
                      ELSE IF obs.phase = "call" THEN FwdCallL ELSE FwdCallL \cup FwdDecorL) : flight' = Exc(k)
        /\ refc' = IF "cache_unvalidated_referent" \in Legacy /\ BadReferent(c.defect) THEN "bad" ELSE "none"
     \/ \* the memoised referent is returned early and handed to isinstance() / issubclass() as it is
        /\ refc = "bad" /\ pc' = "escape" /\ flight' = Exc("py:TypeError") /\ UNCHANGED refc
Body ==
  /\ pc = "body" /\ UNCHANGED << c, refc, calls >>
  /\ \/ /\ c.rp = "callable" /\ reach' = Bump /\ obs' = ObsUserRaise(obs, 1, TRUE)
        /\ flight' = UserExc(1, TRUE) /\ pc' = "escape"
     \/ c.rp # "callable" /\ pc' = "return_ok" /\ UNCHANGED << obs, flight, reach >>
Report ==           \* get_func_pith_violation / get_hint_object_violation re-walk hint and object
  /\ pc = "report" /\ UNCHANGED << c, refc, calls >>
  /\ \/ /\ c.rp \in CheckRPs /\ reach' = Bump /\ obs' = ObsUserRaise(obs, 1, TRUE) /\ pc' = "escape"
        /\ flight' = IF "report_wraps_user" \in Legacy THEN Exc("_BeartypeCallHintPepRaiseException")
                     ELSE UserExc(1, TRUE)
     \/ /\ UNCHANGED << obs, reach >>
        /\ IF c.entry = "is_bearable" \/ (c.entry = "TypeHint")
           THEN pc' = "return_ok" /\ UNCHANGED flight                     \* the tester just says False
           ELSE /\ pc' = "escape"
                /\ \E k \in (IF obs.phase = "call" THEN ViolL ELSE { "BeartypeDoorHintViolation" }) :
                      flight' = Exc(k)

(* ---- beartype.door.TypeHint and is_subhint ------------------------------------------ *)
Wrap ==             \* TypeHint.__new__ (doormeta): die_unless_hint(exception_cls = Door...), wrapper cache
  /\ pc = "wrap" /\ UNCHANGED << c, refc, calls >>
  /\ \/ /\ pc' = (IF c.entry = "is_subhint" THEN "compare" ELSE "return_ok")
        /\ UNCHANGED << flight, obs, reach >>
     \/ Defective /\ pc' = "escape" /\ UNCHANGED << obs, reach >> /\ \E k \in Layer("hint") : flight' = Exc(k)
     \/ /\ Defective /\ Unhashable(c.defect) /\ "unguarded_hash" \in Legacy /\ UNCHANGED << obs, reach >>
        /\ pc' = "escape" /\ flight' = Exc("py:TypeError")
     \/ /\ c.rp \in { "instancecheck", "subclasscheck" } /\ reach + 1 >= c.nth /\ obs.nraise < 2
        /\ reach' = Bump /\ obs' = ObsUserRaise(obs, 1, FALSE) /\ UNCHANGED << pc, flight >>
     \/ \* children are sanified when wrapped: the same isinstance() probes as CodeGen; wrapper == wrapper
        /\ c.rp \in { "instancecheck", "subclasscheck", "eq" } /\ reach + 1 >= c.nth
        /\ reach' = Bump /\ obs' = ObsUserRaise(obs, 1, FALSE) /\ pc' = "escape"
        /\ \/ flight' = UserExc(1, TRUE)
           \/ \E k \in Layer("hint") : flight' = Exc(k)
Compare ==          \* TypeHint.is_subhint -> issubclass() on the wrapped classes: user hook, no handler
  /\ pc = "compare" /\ UNCHANGED << c, refc, calls >>
  /\ \/ pc' = "return_ok" /\ UNCHANGED << obs, flight, reach >>
     \/ /\ c.rp \in { "subclasscheck", "eq" } /\ reach + 1 >= c.nth     \* (Literal members are compared with ==)
        /\ reach' = Bump /\ obs' = ObsUserRaise(obs, 1, FALSE)
        /\ flight' = UserExc(1, TRUE) /\ pc' = "escape"

(* ---- leaving the API ------------------------------------------------------------------ *)
After == CASE obs.phase = "decor" -> "decorated"
          [] obs.phase = "hint" /\ c.entry = "TypeHint" -> "wrapped"
          [] obs.phase = "hint" -> "idle"
          [] obs.phase = "call" -> "decorated"
          [] obs.phase = "door" /\ c.entry = "TypeHint" -> "wrapped"
          [] OTHER -> "idle"
ReturnOk ==
  /\ pc = "return_ok" /\ obs' = ObsReturn(obs, OkOut) /\ pc' = After
  /\ UNCHANGED << c, refc, flight, reach, calls >>
Escape ==
  /\ pc = "escape" /\ obs' = ObsReturn(obs, flight) /\ flight' = NoExc
  /\ pc' = (IF obs.phase = "decor" THEN "done" ELSE After)
  /\ UNCHANGED << c, refc, reach, calls >>

Next == \/ Decorate \/ Call \/ DoorCheck \/ MakeTypeHint \/ IsSubhint
        \/ MemoProbe \/ Sanify \/ CodeGen \/ Warn \/ Unwind
        \/ Quiet \/ ArgCheck \/ ArgCheck2 \/ Body \/ Report \/ Wrap \/ Compare
        \/ ReturnOk \/ Escape
Spec == Init /\ [][Next]_vars

-----------------------------------------------------------------------------
(* Invariants: one per clause of the statement, so that a violation names its clause.   *)
NoForeignException   == "foreign_exception" \notin obs.verdict
NoPrivateException   == "private_exception" \notin obs.verdict
OnlyBeartypeSubtree  == "not_a_beartype_exception" \notin obs.verdict
PhaseSplit           == "phase_split" \notin obs.verdict
UserPassesThrough    == /\ "user_exception_replaced" \notin obs.verdict
                        /\ "user_exception_altered" \notin obs.verdict
                        /\ "user_exception_not_raised" \notin obs.verdict
OnlyBeartypeWarnings == "foreign_warning" \notin obs.verdict
\* the verdict is always the declarative judgement of the last outcome (shape sanity)
TypeOK == /\ obs.out.kind \in { "none", "ok", "exc", "user" } /\ reach \in 0..2 /\ calls \in 0..MaxCalls
          /\ flight.kind \in { "none", "exc", "user" } /\ refc \in { "none", "bad" }
\* a user exception in flight is never dropped on the floor by the pipeline
NothingSwallowed == (pc \in { "unwind", "escape" }) => flight # NoExc

(* the case table *)
RowText(k) == "case|" \o k.entry \o "|" \o k.defect[1] \o "|" \o k.defect[2] \o "|" \o k.pos \o "|"
              \o k.rp \o "|" \o ToString(k.nth) \o "|" \o k.slot \o "|" \o ToString(k.rept)
ASSUME EmitTable == Emit => \A k \in Cases : PrintT(RowText(k))
=============================================================================
