------------------------------- MODULE Signal -------------------------------
(* C03: which signal a rejection surfaces as, given the violation_* options.        *)
(* (beartype/_conf/conftest.py default_conf_kwargs; checkmake._make_code_raiser_     *)
(* violation: raise vs warn per pith kind).                                          *)
(*   violation_type          unset | an exception class | a Warning class           *)
(*   violation_<kind>_type   unset | an exception class | a Warning class, per kind  *)
(* kinds: door (is/die_if_unbearable, TypeHint), param, return.                      *)
EXTENDS Naturals, Sequences, TLC, Json, IOUtils

Kinds == {"door", "param", "return"}
Vals  == {"unset", "excT", "warnT", "excK", "warnK"}   \* ...T: passed as violation_type, ...K: per-kind
IsWarn(c) == c \in {"warnT", "warnK"}
DefaultCls(kind) == CASE kind = "door"   -> "BeartypeDoorHintViolation"
                      [] kind = "param"  -> "BeartypeCallHintParamViolation"
                      [] kind = "return" -> "BeartypeCallHintReturnViolation"

\* faithful: default_conf_kwargs() fills violation_<kind>_type from violation_type, else the default
Effective(vt, vk) == IF vk # "unset" THEN vk ELSE IF vt # "unset" THEN vt ELSE "default"
\* what a rejection of the given kind surfaces as; accepted checks produce no signal
Signal(vt, vk, kind, accepted) ==
  IF accepted THEN [act |-> "none", cls |-> "none", proceeds |-> TRUE]
  ELSE LET e == Effective(vt, vk) IN
       [act |-> IF IsWarn(e) THEN "warn" ELSE "raise",
        cls |-> IF e = "default" THEN DefaultCls(kind) ELSE e,
        proceeds |-> IsWarn(e)]

VARIABLES vt, vk, kind, acc
vars == <<vt, vk, kind, acc>>
Init == vt \in {"unset", "excT", "warnT"} /\ vk \in {"unset", "excK", "warnK"} /\ kind \in Kinds /\ acc \in BOOLEAN
Next == UNCHANGED vars
Spec == Init /\ [][Next]_vars

S == Signal(vt, vk, kind, acc)
\* the statement of C03
NoSignalOnAccept == acc => S.act = "none"
RejectionIsConfigured ==
  ~acc => /\ S.act \in {"raise", "warn"}
          /\ (vk # "unset" => S.cls = vk)                                  \* the per-kind option wins
          /\ (vk = "unset" /\ vt # "unset" => S.cls = vt)                  \* else violation_type
          /\ (vk = "unset" /\ vt = "unset" => S.cls = DefaultCls(kind))    \* else the documented default
WarningProceeds == ~acc => (S.proceeds <=> IsWarn(S.cls)) /\ (S.act = "warn" <=> IsWarn(S.cls))
Emit == JsonSerialize(IOEnv.ROW_DIR \o "/signal_" \o vt \o "_" \o vk \o "_" \o kind \o "_" \o ToString(acc) \o ".json",
                      [vt |-> vt, vk |-> vk, kind |-> kind, acc |-> acc, sig |-> S])
=============================================================================
