------------------------------- MODULE Threads -------------------------------
(* C15 -- beartype's public API under concurrent use.                                *)
(*                                                                                    *)
(* NThreads threads each run a program of ProgLen public-API operations.  Every       *)
(* operation is decomposed at the atomicity of the CODE (beartype 0.23.0), one action *)
(* per control point at which another thread can observe or change shared state:      *)
(*                                                                                    *)
(*   BeartypeConf(args)     confmain.BeartypeConf.__new__: the whole body under         *)
(*                          _beartype_conf_lock: probe raw key; probe sanified key;     *)
(*                          fill both; initialise the new object AFTER publishing it.   *)
(*   TypeHint(h)            doormeta + CacheUnboundedStrong (RLock): probe; the factory *)
(*                          runs INSIDE the lock and re-enters it for the metahint of   *)
(*                          an Annotated hint; fill.                                    *)
(*   is_bearable(o, h)      doorfunc tester memo (lock-free) ; catch_warnings ;         *)
(*                          make_check_expr: lock-free expression memo, pooled          *)
(*                          HintTreeCode scratch between acquire and release.           *)
(*   beartype(f) / beartype(conf=c)(f)   lock-free decorator memo ; pooled              *)
(*                          BeartypeCallDecorFuncData ; make_check_expr as above.       *)
(*   beartype_package(p,c)  make_conf_hookable (a BeartypeConf call) ; claw_lock        *)
(*                          (RLock) around trie creation, conflict check and write.     *)
(*   lookup(name)           get_package_conf_or_none under claw_lock.                   *)
(*   KeyPool.acquire        LockAcq ; TestNonEmpty ; Pop | Make ; LockRel               *)
(*   KeyPool.release        LockAcq ; Push ; LockRel                                    *)
(*                                                                                    *)
(* The DECLARATIVE side is SeqApply / SeqRuns: the results of the same operations run *)
(* one after the other (memoisation invisible, registry = last writer wins, conflict  *)
(* raises).  Properties:                                                              *)
(*   P1 exclusive scratch state   P2 singletons   P3 linearisability of the result    *)
(*   vector (+ lock-free memos only ever hold the right value, process-global state   *)
(*   restored)   P4 no deadlock (TLC), no lost registration, acyclic lock order.      *)
(*                                                                                    *)
(* Mutant selects a plausible wrong design that TLC must reject; Legacy switches on   *)
(* designs of the unchanged tree that the ideal property rejects.                     *)
EXTENDS Integers, Sequences, FiniteSets, TLC

CONSTANTS NThreads,      \* number of threads
          ProgLen,       \* operations per thread
          OpSel,         \* set of operation names programs are drawn from
          Mutant,        \* "none" | "NoPoolLock" | "NoConfLock" | "LockNotReentrant" |
                         \* "FillBeforeProbe" | "NoClawLock" | "ReleaseEarly"
          Legacy,        \* subset of {"warn_ctx"}: catch_warnings() around code generation
          WarmPool,      \* TRUE: every pool starts with one released item (a process that has decorated before)
          LazyProg       \* TRUE: a thread picks its next operation when it invokes it (one initial state;
                         \* states before the choice are shared); FALSE: programs fixed in Init, threads sorted

Thr == 1..NThreads
Locks == {"conf", "pool", "th", "claw"}
PoolKeys == {"HTC", "DFD"}          \* HintTreeCode, BeartypeCallDecorFuncData
Leaves == {"pa", "pb"}              \* packages p.a and p.b (they share the trie node p)
MaxItems == 2 * NThreads + 2        \* a thread holds at most one item per pool key (+ the warm ones)
MaxIds == NThreads * ProgLen + 2

\* ---------------------------------------------------------------- operations
AllOpNames == << "Conf_ka", "Conf_ka2", "Conf_kb", "TH_A", "TH_NA", "TH_NB", "Bear_LA", "Bear_LB",
                 "Dec_LA_D", "Dec_LB_D", "Dec_LA_C1", "Hook_pa_C1", "Hook_pa_C2", "Hook_pb_C1",
                 "Look_pa", "Look_pb" >>
Op(k, a, b) == [k |-> k, a |-> a, b |-> b]
OpDef(n) ==
  CASE n = "Conf_ka"    -> Op("Conf", "ka", "")     \* BeartypeConf(x=1, y=2)
    [] n = "Conf_ka2"   -> Op("Conf", "ka2", "")    \* the same configuration spelled differently
    [] n = "Conf_kb"    -> Op("Conf", "kb", "")
    [] n = "TH_A"       -> Op("TH", "A", "")
    [] n = "TH_NA"      -> Op("TH", "NA", "")       \* Annotated[A, ...]: the factory wraps A inside the lock
    [] n = "TH_NB"      -> Op("TH", "NB", "")
    [] n = "Bear_LA"    -> Op("Bear", "LA", "")
    [] n = "Bear_LB"    -> Op("Bear", "LB", "")
    [] n = "Dec_LA_D"   -> Op("Dec", "LA", "D")     \* @beartype, default configuration
    [] n = "Dec_LB_D"   -> Op("Dec", "LB", "D")
    [] n = "Dec_LA_C1"  -> Op("Dec", "LA", "C1")    \* @beartype(conf=C1)
    [] n = "Hook_pa_C1" -> Op("Hook", "pa", "C1")
    [] n = "Hook_pa_C2" -> Op("Hook", "pa", "C2")   \* conflicts with Hook_pa_C1
    [] n = "Hook_pb_C1" -> Op("Hook", "pb", "C1")
    [] n = "Look_pa"    -> Op("Look", "pa", "")
    [] n = "Look_pb"    -> Op("Look", "pb", "")

OpIdx(n) == CHOOSE i \in 1..Len(AllOpNames) : AllOpNames[i] = n
RECURSIVE ProgCode(_)
ProgCode(p) == IF p = <<>> THEN 0 ELSE OpIdx(Head(p)) + 100 * ProgCode(Tail(p))

ConfKeys == {"ka", "ka2", "kb", "sa", "sb", "hC1", "hC2"}
San(k) == CASE k \in {"ka", "ka2", "sa"} -> "sa" [] k \in {"kb", "sb"} -> "sb" [] OTHER -> k
Hk(c) == IF c = "C1" THEN "hC1" ELSE "hC2"         \* key of the hookable variant of conf c (pre-warmed)
Hints == {"A", "B", "NA", "NB"}
Child(h) == CASE h = "NA" -> "A" [] h = "NB" -> "B" [] OTHER -> ""
ExprKeys == {"LA", "LB"} \X {"D", "C1"}
ExprHints == {"LA", "LB"}

\* ---------------------------------------------------------------- state
VARIABLES prog, ip, stk, reg, res, last,          \* control
          lockOwner, lockCnt, order,              \* locks (order = observed nesting pairs)
          pool, holds, scratch, nextItem,         \* KeyPool and the scratch objects
          confMemo, confInit, nextConf,           \* BeartypeConf table
          thCache, nextW,                         \* TypeHint wrapper cache
          exprMemo, testMemo, decorMemo,          \* lock-free memo dictionaries
          top, topGen, kids,                      \* claw registry (trie node p and its leaves)
          wstate,                                 \* process-global warnings state
          fault                                   \* "none" or the exception a thread died of

ctlv  == <<prog, ip, stk, reg, res>>
lockv == <<lockOwner, lockCnt, order>>
poolv == <<pool, holds, scratch, nextItem>>
confv == <<confMemo, confInit, nextConf>>
thv   == <<thCache, nextW>>
memov == <<exprMemo, testMemo, decorMemo>>
clawv == <<top, topGen, kids>>
vars  == <<ctlv, last, lockv, poolv, confv, thv, memov, clawv, wstate, fault>>
View  == <<ctlv, lockv, poolv, confv, thv, memov, clawv, wstate, fault>>

Fr(pc, h, c) == [pc |-> pc, h |-> h, c |-> c, it |-> 0, n |-> 0, s |-> ""]
FrI(pc, h, it) == [pc |-> pc, h |-> h, c |-> "", it |-> it, n |-> 0, s |-> ""]
Top(t) == stk[t][Len(stk[t])]
At(t, lbl) == stk[t] # <<>> /\ Top(t).pc = lbl
Upd(t, f) == [stk EXCEPT ![t] = [@ EXCEPT ![Len(@)] = f]]
Goto(t, lbl) == Upd(t, [Top(t) EXCEPT !.pc = lbl])
Call(t, f, callee) == [stk EXCEPT ![t] = Append([@ EXCEPT ![Len(@)] = f], callee)]
Ret(t) == [stk EXCEPT ![t] = SubSeq(@, 1, Len(@) - 1)]
Did(t, lbl) == last' = [t |-> t, a |-> lbl]
Range(s) == {s[i] : i \in DOMAIN s}

Progs == { p \in [1..ProgLen -> OpSel] : TRUE }

Init ==
  /\ prog \in IF LazyProg THEN {[t \in Thr |-> <<>>]} ELSE [Thr -> Progs]
  /\ \A t \in 1..(NThreads - 1) : ProgCode(prog[t]) <= ProgCode(prog[t + 1])   \* thread symmetry
  /\ ip = [t \in Thr |-> 0]
  /\ stk = [t \in Thr |-> <<>>]
  /\ reg = [t \in Thr |-> [n |-> 0, s |-> ""]]
  /\ res = [t \in Thr |-> <<>>]
  /\ last = [t |-> 0, a |-> "init"]
  /\ lockOwner = [l \in Locks |-> 0] /\ lockCnt = [l \in Locks |-> 0] /\ order = {}
  /\ pool = [k \in PoolKeys |-> IF WarmPool THEN (IF k = "HTC" THEN <<1>> ELSE <<2>>) ELSE <<>>]
  /\ holds = [t \in Thr |-> {}]
  /\ scratch = [i \in 1..MaxItems |-> ""] /\ nextItem = IF WarmPool THEN 2 ELSE 0
  /\ confMemo = [k \in ConfKeys |-> CASE k = "hC1" -> 1 [] k = "hC2" -> 2 [] OTHER -> 0]
  /\ confInit = [i \in 1..MaxIds |-> i <= 2] /\ nextConf = 2
  /\ thCache = [h \in Hints |-> 0] /\ nextW = 0
  /\ exprMemo = [k \in ExprKeys |-> ""] /\ testMemo = [h \in ExprHints |-> ""]
  /\ decorMemo = [c \in {"C1"} |-> FALSE]
  /\ top = FALSE /\ topGen = 0 /\ kids = [p \in Leaves |-> ""]
  /\ wstate = "orig"
  /\ fault = "none"

\* ---------------------------------------------------------------- locks
Locked(l) == ~ \/ (Mutant = "NoPoolLock" /\ l = "pool")
               \/ (Mutant = "NoConfLock" /\ l = "conf")
               \/ (Mutant = "NoClawLock" /\ l = "claw")
Reentrant(l) == l \in {"th", "claw"} /\ Mutant # "LockNotReentrant"
CanAcq(t, l) == ~Locked(l) \/ lockOwner[l] = 0 \/ (Reentrant(l) /\ lockOwner[l] = t)
DoAcq(t, l) ==
  IF Locked(l)
  THEN /\ lockOwner' = [lockOwner EXCEPT ![l] = t]
       /\ lockCnt' = [lockCnt EXCEPT ![l] = @ + 1]
       /\ order' = order \cup {<<m, l>> : m \in {m \in Locks : lockOwner[m] = t /\ m # l}}
  ELSE UNCHANGED lockv
DoRel(t, l) ==
  IF Locked(l)
  THEN /\ lockCnt' = [lockCnt EXCEPT ![l] = @ - 1]
       /\ lockOwner' = [lockOwner EXCEPT ![l] = IF lockCnt[l] = 1 THEN 0 ELSE @]
       /\ UNCHANGED order
  ELSE UNCHANGED lockv

Die(t, why) ==       \* an exception escapes the operation: the thread stops, the run is faulty
  /\ fault' = why
  /\ stk' = [stk EXCEPT ![t] = <<>>]
  /\ ip' = [ip EXCEPT ![t] = ProgLen]
  /\ UNCHANGED <<prog, reg, res>>

\* ---------------------------------------------------------------- invocation
FirstFrames(op) ==
  CASE op.k = "Conf" -> << Fr("C_acq", op.a, "top") >>
    [] op.k = "TH"   -> << Fr("T_acq", op.a, "top") >>
    [] op.k = "Bear" -> << Fr("B_tprobe", op.a, "") >>
    [] op.k = "Dec"  -> IF op.b = "D" THEN << Fr("D_init", op.a, op.b), Fr("PA_acq", "DFD", "") >>
                        ELSE << Fr("D_dprobe", op.a, op.b) >>
    [] op.k = "Hook" -> << Fr("H_acq", op.a, op.b), Fr("C_acq", Hk(op.b), "sub") >>
    [] op.k = "Look" -> << Fr("L_acq", op.a, "") >>

Begin(t) ==
  /\ stk[t] = <<>> /\ ip[t] < ProgLen
  /\ \E name \in (IF LazyProg THEN OpSel ELSE {prog[t][ip[t] + 1]}) :
       /\ prog' = IF LazyProg THEN [prog EXCEPT ![t] = Append(@, name)] ELSE prog
       /\ stk' = [stk EXCEPT ![t] = FirstFrames(OpDef(name))]
  /\ Did(t, "inv")
  /\ UNCHANGED <<ip, reg, res, lockv, poolv, confv, thv, memov, clawv, wstate, fault>>

Respond(t, r) ==     \* the response of the current top-level operation
  /\ res' = [res EXCEPT ![t] = Append(@, r)]
  /\ ip' = [ip EXCEPT ![t] = @ + 1]
  /\ stk' = Ret(t)
  /\ UNCHANGED <<prog, reg>>
R(k, n, s) == [k |-> k, n |-> n, s |-> s]

\* ---------------------------------------------------------------- BeartypeConf.__new__
C_acq(t) == /\ At(t, "C_acq") /\ CanAcq(t, "conf") /\ DoAcq(t, "conf")
            /\ stk' = Goto(t, "C_probe") /\ Did(t, "C_acq")
            /\ UNCHANGED <<prog, ip, reg, res, poolv, confv, thv, memov, clawv, wstate, fault>>
C_probe(t) == /\ At(t, "C_probe")
              /\ LET f == Top(t)  v == confMemo[f.h] IN
                   stk' = IF v # 0 THEN Upd(t, [f EXCEPT !.pc = "C_rel", !.n = v]) ELSE Goto(t, "C_probe2")
              /\ Did(t, "C_probe")
              /\ UNCHANGED <<prog, ip, reg, res, lockv, poolv, confv, thv, memov, clawv, wstate, fault>>
C_probe2(t) == /\ At(t, "C_probe2")
               /\ LET f == Top(t)  v == confMemo[San(f.h)] IN
                    IF v # 0
                    THEN stk' = Upd(t, [f EXCEPT !.pc = "C_fillold", !.n = v]) /\ UNCHANGED nextConf
                    ELSE /\ stk' = Upd(t, [f EXCEPT !.pc = "C_fill1", !.n = nextConf + 1])   \* object.__new__
                         /\ nextConf' = nextConf + 1
               /\ Did(t, "C_probe2")
               /\ UNCHANGED <<prog, ip, reg, res, lockv, poolv, confMemo, confInit, thv, memov, clawv, wstate, fault>>
C_fillold(t) == /\ At(t, "C_fillold")
                /\ confMemo' = [confMemo EXCEPT ![Top(t).h] = Top(t).n]
                /\ stk' = Goto(t, "C_rel") /\ Did(t, "C_fillold")
                /\ UNCHANGED <<prog, ip, reg, res, lockv, poolv, confInit, nextConf, thv, memov, clawv, wstate, fault>>
C_fill1(t) == /\ At(t, "C_fill1")
              /\ confMemo' = [confMemo EXCEPT ![Top(t).h] = Top(t).n]
              /\ stk' = Goto(t, "C_fill2") /\ Did(t, "C_fill1")
              /\ UNCHANGED <<prog, ip, reg, res, lockv, poolv, confInit, nextConf, thv, memov, clawv, wstate, fault>>
C_fill2(t) == /\ At(t, "C_fill2")
              /\ confMemo' = [confMemo EXCEPT ![San(Top(t).h)] = Top(t).n]
              /\ stk' = Goto(t, "C_init") /\ Did(t, "C_fill2")
              /\ UNCHANGED <<prog, ip, reg, res, lockv, poolv, confInit, nextConf, thv, memov, clawv, wstate, fault>>
C_init(t) == /\ At(t, "C_init")                      \* the slots are assigned after the object was published
             /\ confInit' = [confInit EXCEPT ![Top(t).n] = TRUE]
             /\ stk' = Goto(t, "C_rel") /\ Did(t, "C_init")
             /\ UNCHANGED <<prog, ip, reg, res, lockv, poolv, confMemo, nextConf, thv, memov, clawv, wstate, fault>>
C_rel(t) == /\ At(t, "C_rel") /\ DoRel(t, "conf")
            /\ stk' = Goto(t, "C_ret") /\ Did(t, "C_rel")
            /\ UNCHANGED <<prog, ip, reg, res, poolv, confv, thv, memov, clawv, wstate, fault>>
C_ret(t) == /\ At(t, "C_ret")
            /\ LET f == Top(t) IN
                 IF f.c = "top"
                 THEN Respond(t, R("conf", f.n, IF confInit[f.n] THEN "ok" ELSE "uninit"))
                 ELSE stk' = Ret(t) /\ reg' = [reg EXCEPT ![t] = [n |-> f.n, s |-> ""]] /\ UNCHANGED <<prog, ip, res>>
            /\ Did(t, IF Top(t).c = "top" THEN "res" ELSE "C_sret")
            /\ UNCHANGED <<lockv, poolv, confv, thv, memov, clawv, wstate, fault>>

\* ---------------------------------------------------------------- TypeHint(h)
T_acq(t) == /\ At(t, "T_acq") /\ CanAcq(t, "th") /\ DoAcq(t, "th")
            /\ stk' = Goto(t, "T_probe") /\ Did(t, "T_acq")
            /\ UNCHANGED <<prog, ip, reg, res, poolv, confv, thv, memov, clawv, wstate, fault>>
T_probe(t) == /\ At(t, "T_probe")
              /\ LET f == Top(t)  v == thCache[f.h] IN
                   stk' = IF v # 0 THEN Upd(t, [f EXCEPT !.pc = "T_rel", !.n = v])
                          ELSE IF Child(f.h) # ""                      \* the factory re-enters for the child
                               THEN Call(t, [f EXCEPT !.pc = "T_fill"], Fr("T_acq", Child(f.h), "sub"))
                               ELSE Goto(t, "T_fill")
              /\ Did(t, "T_probe")
              /\ UNCHANGED <<prog, ip, reg, res, lockv, poolv, confv, thv, memov, clawv, wstate, fault>>
T_fill(t) == /\ At(t, "T_fill")
             /\ thCache' = [thCache EXCEPT ![Top(t).h] = nextW + 1] /\ nextW' = nextW + 1
             /\ stk' = Upd(t, [Top(t) EXCEPT !.pc = "T_rel", !.n = nextW + 1]) /\ Did(t, "T_fill")
             /\ UNCHANGED <<prog, ip, reg, res, lockv, poolv, confv, memov, clawv, wstate, fault>>
T_rel(t) == /\ At(t, "T_rel") /\ DoRel(t, "th")
            /\ stk' = Goto(t, "T_ret") /\ Did(t, "T_rel")
            /\ UNCHANGED <<prog, ip, reg, res, poolv, confv, thv, memov, clawv, wstate, fault>>
T_ret(t) == /\ At(t, "T_ret")
            /\ LET f == Top(t) IN
                 IF f.c = "top" THEN Respond(t, R("th", f.n, ""))
                 ELSE stk' = Ret(t) /\ UNCHANGED <<prog, ip, reg, res>>
            /\ Did(t, IF Top(t).c = "top" THEN "res" ELSE "T_sret")
            /\ UNCHANGED <<lockv, poolv, confv, thv, memov, clawv, wstate, fault>>

\* ---------------------------------------------------------------- KeyPool.acquire / release
PA_acq(t) == /\ At(t, "PA_acq") /\ CanAcq(t, "pool") /\ DoAcq(t, "pool")
             /\ stk' = Goto(t, "PA_test") /\ Did(t, "PA_acq")
             /\ UNCHANGED <<prog, ip, reg, res, poolv, confv, thv, memov, clawv, wstate, fault>>
PA_test(t) == /\ At(t, "PA_test")
              /\ stk' = Goto(t, IF pool[Top(t).h] # <<>> THEN "PA_pop" ELSE "PA_make")
              /\ Did(t, "PA_test")
              /\ UNCHANGED <<prog, ip, reg, res, lockv, poolv, confv, thv, memov, clawv, wstate, fault>>
PA_pop(t) == /\ At(t, "PA_pop")
             /\ LET f == Top(t)  p == pool[f.h] IN
                  IF p = <<>>
                  THEN Die(t, "IndexError_pop_from_empty_pool") /\ UNCHANGED poolv
                  ELSE /\ pool' = [pool EXCEPT ![f.h] = SubSeq(p, 1, Len(p) - 1)]
                       /\ holds' = [holds EXCEPT ![t] = @ \cup {p[Len(p)]}]
                       /\ stk' = Upd(t, [f EXCEPT !.pc = "PA_rel", !.it = p[Len(p)]])
                       /\ UNCHANGED <<prog, ip, reg, res, scratch, nextItem, fault>>
             /\ Did(t, "PA_pop")
             /\ UNCHANGED <<lockv, confv, thv, memov, clawv, wstate>>
PA_make(t) == /\ At(t, "PA_make")
              /\ nextItem' = nextItem + 1
              /\ holds' = [holds EXCEPT ![t] = @ \cup {nextItem + 1}]
              /\ stk' = Upd(t, [Top(t) EXCEPT !.pc = "PA_rel", !.it = nextItem + 1]) /\ Did(t, "PA_make")
              /\ UNCHANGED <<prog, ip, reg, res, lockv, pool, scratch, confv, thv, memov, clawv, wstate, fault>>
PA_rel(t) == /\ At(t, "PA_rel") /\ DoRel(t, "pool")
             /\ reg' = [reg EXCEPT ![t] = [n |-> Top(t).it, s |-> ""]]
             /\ stk' = Ret(t) /\ Did(t, "PA_rel")
             /\ UNCHANGED <<prog, ip, res, poolv, confv, thv, memov, clawv, wstate, fault>>

PR_acq(t) == /\ At(t, "PR_acq") /\ CanAcq(t, "pool") /\ DoAcq(t, "pool")
             /\ stk' = Goto(t, "PR_push") /\ Did(t, "PR_acq")
             /\ UNCHANGED <<prog, ip, reg, res, poolv, confv, thv, memov, clawv, wstate, fault>>
PR_push(t) == /\ At(t, "PR_push")
              /\ LET f == Top(t) IN
                   IF f.it \in Range(pool[f.h])
                   THEN Die(t, "double_release") /\ UNCHANGED poolv
                   ELSE /\ pool' = [pool EXCEPT ![f.h] = Append(@, f.it)]
                        /\ holds' = [holds EXCEPT ![t] = @ \ {f.it}]
                        /\ stk' = Goto(t, "PR_rel")
                        /\ UNCHANGED <<prog, ip, reg, res, scratch, nextItem, fault>>
              /\ Did(t, "PR_push")
              /\ UNCHANGED <<lockv, confv, thv, memov, clawv, wstate>>
PR_rel(t) == /\ At(t, "PR_rel") /\ DoRel(t, "pool")
             /\ stk' = Ret(t) /\ Did(t, "PR_rel")
             /\ UNCHANGED <<prog, ip, reg, res, poolv, confv, thv, memov, clawv, wstate, fault>>

\* ---------------------------------------------------------------- make_check_expr(h, c)
\* frame: h = hint, c = conf, it = the pooled HintTreeCode, s = generated code
G_probe(t) == /\ At(t, "G_probe")
              /\ LET f == Top(t)  v == exprMemo[<<f.h, f.c>>] IN
                   IF v # ""
                   THEN stk' = Ret(t) /\ reg' = [reg EXCEPT ![t] = [n |-> 0, s |-> v]]
                   ELSE /\ stk' = IF Mutant = "FillBeforeProbe" THEN Goto(t, "G_fill0")
                                  ELSE Call(t, [f EXCEPT !.pc = "G_bfs1"], Fr("PA_acq", "HTC", ""))
                        /\ UNCHANGED reg
              /\ Did(t, "G_probe")
              /\ UNCHANGED <<prog, ip, res, lockv, poolv, confv, thv, memov, clawv, wstate, fault>>
G_fill0(t) == /\ At(t, "G_fill0")                     \* mutant: the entry is published before it is computed
              /\ exprMemo' = [exprMemo EXCEPT ![<<Top(t).h, Top(t).c>>] = "partial"]
              /\ stk' = Call(t, [Top(t) EXCEPT !.pc = "G_bfs1"], Fr("PA_acq", "HTC", "")) /\ Did(t, "G_fill0")
              /\ UNCHANGED <<prog, ip, reg, res, lockv, poolv, confv, thv, testMemo, decorMemo, clawv, wstate, fault>>
G_bfs1(t) == /\ At(t, "G_bfs1")                       \* the BFS initialises its scratch tree ...
             /\ LET f == Top(t)  it == reg[t].n IN
                  /\ scratch' = [scratch EXCEPT ![it] = f.h]
                  /\ stk' = IF Mutant = "ReleaseEarly"
                            THEN Call(t, [f EXCEPT !.pc = "G_bfs2", !.it = it], FrI("PR_acq", "HTC", it))
                            ELSE Upd(t, [f EXCEPT !.pc = "G_bfs2", !.it = it])
             /\ Did(t, "G_bfs1")
             /\ UNCHANGED <<prog, ip, reg, res, lockv, pool, holds, nextItem, confv, thv, memov, clawv, wstate, fault>>
G_bfs2(t) == /\ At(t, "G_bfs2")                       \* ... and reads the code back out of it
             /\ stk' = Upd(t, [Top(t) EXCEPT !.pc = "G_fill", !.s = scratch[Top(t).it]])
             /\ Did(t, "G_bfs2")
             /\ UNCHANGED <<prog, ip, reg, res, lockv, poolv, confv, thv, memov, clawv, wstate, fault>>
G_fill(t) == /\ At(t, "G_fill")
             /\ LET f == Top(t) IN
                  /\ exprMemo' = [exprMemo EXCEPT ![<<f.h, f.c>>] = f.s]
                  /\ stk' = IF Mutant = "ReleaseEarly" THEN Goto(t, "G_ret")
                            ELSE Call(t, [f EXCEPT !.pc = "G_ret"], FrI("PR_acq", "HTC", f.it))
             /\ Did(t, "G_fill")
             /\ UNCHANGED <<prog, ip, reg, res, lockv, poolv, confv, thv, testMemo, decorMemo, clawv, wstate, fault>>
G_ret(t) == /\ At(t, "G_ret")
            /\ reg' = [reg EXCEPT ![t] = [n |-> 0, s |-> Top(t).s]]
            /\ stk' = Ret(t) /\ Did(t, "G_ret")
            /\ UNCHANGED <<prog, ip, res, lockv, poolv, confv, thv, memov, clawv, wstate, fault>>

\* ---------------------------------------------------------------- catch_warnings(record=True)
\* __enter__ saves the process-global state and installs its own; __exit__ restores what it saved
WarnCtx == "warn_ctx" \in Legacy
Tok(t) == CASE t = 1 -> "t1" [] t = 2 -> "t2" [] OTHER -> "t3"

\* ---------------------------------------------------------------- is_bearable(o, h)
\* frame: h = hint, c = saved warnings state, s = code of the tester
B_tprobe(t) == /\ At(t, "B_tprobe")
               /\ LET f == Top(t)  v == testMemo[f.h] IN
                    stk' = IF v # "" THEN Upd(t, [f EXCEPT !.pc = "B_ret", !.s = v])
                           ELSE IF WarnCtx THEN Goto(t, "B_wenter")
                           ELSE Call(t, [f EXCEPT !.pc = "B_tfill"], Fr("G_probe", f.h, "D"))
               /\ Did(t, "B_tprobe")
               /\ UNCHANGED <<prog, ip, reg, res, lockv, poolv, confv, thv, memov, clawv, wstate, fault>>
B_wenter(t) == /\ At(t, "B_wenter")
               /\ wstate' = Tok(t)
               /\ stk' = Call(t, [Top(t) EXCEPT !.pc = "B_tfill", !.c = wstate], Fr("G_probe", Top(t).h, "D"))
               /\ Did(t, "B_wenter")
               /\ UNCHANGED <<prog, ip, reg, res, lockv, poolv, confv, thv, memov, clawv, fault>>
B_tfill(t) == /\ At(t, "B_tfill")
              /\ testMemo' = [testMemo EXCEPT ![Top(t).h] = reg[t].s]
              /\ stk' = Upd(t, [Top(t) EXCEPT !.pc = IF WarnCtx THEN "B_wexit" ELSE "B_ret", !.s = reg[t].s])
              /\ Did(t, "B_tfill")
              /\ UNCHANGED <<prog, ip, reg, res, lockv, poolv, confv, thv, exprMemo, decorMemo, clawv, wstate, fault>>
B_wexit(t) == /\ At(t, "B_wexit")
              /\ wstate' = Top(t).c
              /\ stk' = Goto(t, "B_ret") /\ Did(t, "B_wexit")
              /\ UNCHANGED <<prog, ip, reg, res, lockv, poolv, confv, thv, memov, clawv, fault>>
B_ret(t) == /\ At(t, "B_ret")
            /\ Respond(t, R("code", 0, Top(t).s)) /\ Did(t, "res")
            /\ UNCHANGED <<lockv, poolv, confv, thv, memov, clawv, wstate, fault>>

\* ---------------------------------------------------------------- beartype(f) / beartype(conf=c)(f)
\* frame: h = hint of f's parameter, c = conf, it = the pooled call data, n = 1 once the saved
\* warnings state is in s; the generated code ends in s
D_dprobe(t) == /\ At(t, "D_dprobe")
               /\ LET f == Top(t) IN
                    stk' = IF decorMemo[f.c] THEN Call(t, [f EXCEPT !.pc = "D_init"], Fr("PA_acq", "DFD", ""))
                           ELSE Goto(t, "D_dfill")
               /\ Did(t, "D_dprobe")
               /\ UNCHANGED <<prog, ip, reg, res, lockv, poolv, confv, thv, memov, clawv, wstate, fault>>
D_dfill(t) == /\ At(t, "D_dfill")
              /\ decorMemo' = [decorMemo EXCEPT ![Top(t).c] = TRUE]
              /\ stk' = Call(t, [Top(t) EXCEPT !.pc = "D_init"], Fr("PA_acq", "DFD", "")) /\ Did(t, "D_dfill")
              /\ UNCHANGED <<prog, ip, reg, res, lockv, poolv, confv, thv, exprMemo, testMemo, clawv, wstate, fault>>
D_init(t) == /\ At(t, "D_init")                       \* decor_func.reinit(func, conf, ...)
             /\ scratch' = [scratch EXCEPT ![reg[t].n] = Top(t).h]
             /\ stk' = Upd(t, [Top(t) EXCEPT !.pc = IF WarnCtx THEN "D_wenter" ELSE "D_gen", !.it = reg[t].n])
             /\ Did(t, "D_init")
             /\ UNCHANGED <<prog, ip, reg, res, lockv, pool, holds, nextItem, confv, thv, memov, clawv, wstate, fault>>
D_wenter(t) == /\ At(t, "D_wenter")
               /\ wstate' = Tok(t)
               /\ stk' = Upd(t, [Top(t) EXCEPT !.pc = "D_gen", !.s = wstate]) /\ Did(t, "D_wenter")
               /\ UNCHANGED <<prog, ip, reg, res, lockv, poolv, confv, thv, memov, clawv, fault>>
D_gen(t) == /\ At(t, "D_gen")                         \* the hint is read back from the pooled call data
            /\ LET f == Top(t) IN
                 stk' = Call(t, [f EXCEPT !.pc = IF WarnCtx THEN "D_wexit" ELSE "D_post"],
                             Fr("G_probe", scratch[f.it], f.c))
            /\ Did(t, "D_gen")
            /\ UNCHANGED <<prog, ip, reg, res, lockv, poolv, confv, thv, memov, clawv, wstate, fault>>
D_wexit(t) == /\ At(t, "D_wexit")
              /\ wstate' = Top(t).s
              /\ stk' = Goto(t, "D_post") /\ Did(t, "D_wexit")
              /\ UNCHANGED <<prog, ip, reg, res, lockv, poolv, confv, thv, memov, clawv, fault>>
D_post(t) == /\ At(t, "D_post")
             /\ stk' = Call(t, [Top(t) EXCEPT !.pc = "D_ret", !.s = reg[t].s], FrI("PR_acq", "DFD", Top(t).it))
             /\ Did(t, "D_post")
             /\ UNCHANGED <<prog, ip, reg, res, lockv, poolv, confv, thv, memov, clawv, wstate, fault>>
D_ret(t) == /\ At(t, "D_ret")
            /\ Respond(t, R("code", 0, Top(t).s)) /\ Did(t, "res")
            /\ UNCHANGED <<lockv, poolv, confv, thv, memov, clawv, wstate, fault>>

\* ---------------------------------------------------------------- beartype_package(p.x, conf=c)
\* frame: h = leaf, c = conf, n = generation of the trie node p this thread walks, s = outcome
H_acq(t) == /\ At(t, "H_acq") /\ CanAcq(t, "claw") /\ DoAcq(t, "claw")
            /\ stk' = Goto(t, "H_gettop") /\ Did(t, "H_acq")
            /\ UNCHANGED <<prog, ip, reg, res, poolv, confv, thv, memov, clawv, wstate, fault>>
H_gettop(t) == /\ At(t, "H_gettop")                   \* if basename not in trie
               /\ stk' = IF top THEN Upd(t, [Top(t) EXCEPT !.pc = "H_getleaf", !.n = topGen]) ELSE Goto(t, "H_newtop")
               /\ Did(t, "H_gettop")
               /\ UNCHANGED <<prog, ip, reg, res, lockv, poolv, confv, thv, memov, clawv, wstate, fault>>
H_newtop(t) == /\ At(t, "H_newtop")                   \* trie[basename] = PackagesTrieWhitelist(): a NEW, empty node
               /\ top' = TRUE /\ topGen' = topGen + 1 /\ kids' = [p \in Leaves |-> ""]
               /\ stk' = Upd(t, [Top(t) EXCEPT !.pc = "H_getleaf", !.n = topGen + 1]) /\ Did(t, "H_newtop")
               /\ UNCHANGED <<prog, ip, reg, res, lockv, poolv, confv, thv, memov, wstate, fault>>
Mine(t) == Top(t).n = topGen                          \* else the thread works on an orphaned node
H_getleaf(t) == /\ At(t, "H_getleaf")
                /\ stk' = Goto(t, IF Mine(t) /\ kids[Top(t).h] # "" THEN "H_check" ELSE "H_newleaf")
                /\ Did(t, "H_getleaf")
                /\ UNCHANGED <<prog, ip, reg, res, lockv, poolv, confv, thv, memov, clawv, wstate, fault>>
H_newleaf(t) == /\ At(t, "H_newleaf")
                /\ kids' = IF Mine(t) THEN [kids EXCEPT ![Top(t).h] = "none"] ELSE kids
                /\ stk' = Goto(t, "H_check") /\ Did(t, "H_newleaf")
                /\ UNCHANGED <<prog, ip, reg, res, lockv, poolv, confv, thv, memov, top, topGen, wstate, fault>>
H_check(t) == /\ At(t, "H_check")                     \* conf_if_hooked: None -> write; equal -> fine; else raise
              /\ LET f == Top(t)  cur == IF Mine(t) /\ kids[f.h] # "" THEN kids[f.h] ELSE "none" IN
                   stk' = IF cur \in {"none", f.c} THEN Goto(t, "H_write")
                          ELSE Upd(t, [f EXCEPT !.pc = "H_rel", !.s = "exc"])
              /\ Did(t, "H_check")
              /\ UNCHANGED <<prog, ip, reg, res, lockv, poolv, confv, thv, memov, clawv, wstate, fault>>
H_write(t) == /\ At(t, "H_write")
              /\ kids' = IF Mine(t) THEN [kids EXCEPT ![Top(t).h] = Top(t).c] ELSE kids
              /\ stk' = Upd(t, [Top(t) EXCEPT !.pc = "H_rel", !.s = "ok"]) /\ Did(t, "H_write")
              /\ UNCHANGED <<prog, ip, reg, res, lockv, poolv, confv, thv, memov, top, topGen, wstate, fault>>
H_rel(t) == /\ At(t, "H_rel") /\ DoRel(t, "claw")
            /\ stk' = Goto(t, "H_ret") /\ Did(t, "H_rel")
            /\ UNCHANGED <<prog, ip, reg, res, poolv, confv, thv, memov, clawv, wstate, fault>>
H_ret(t) == /\ At(t, "H_ret")
            /\ Respond(t, R("hook", 0, Top(t).s)) /\ Did(t, "res")
            /\ UNCHANGED <<lockv, poolv, confv, thv, memov, clawv, wstate, fault>>

\* ---------------------------------------------------------------- get_package_conf_or_none(p.x.m)
L_acq(t) == /\ At(t, "L_acq") /\ CanAcq(t, "claw") /\ DoAcq(t, "claw")
            /\ stk' = Goto(t, "L_read") /\ Did(t, "L_acq")
            /\ UNCHANGED <<prog, ip, reg, res, poolv, confv, thv, memov, clawv, wstate, fault>>
L_read(t) == /\ At(t, "L_read")
             /\ stk' = Upd(t, [Top(t) EXCEPT !.pc = "L_rel",
                                             !.s = IF top /\ kids[Top(t).h] \notin {"", "none"} THEN kids[Top(t).h] ELSE "none"])
             /\ Did(t, "L_read")
             /\ UNCHANGED <<prog, ip, reg, res, lockv, poolv, confv, thv, memov, clawv, wstate, fault>>
L_rel(t) == /\ At(t, "L_rel") /\ DoRel(t, "claw")
            /\ stk' = Goto(t, "L_ret") /\ Did(t, "L_rel")
            /\ UNCHANGED <<prog, ip, reg, res, poolv, confv, thv, memov, clawv, wstate, fault>>
L_ret(t) == /\ At(t, "L_ret")
            /\ Respond(t, R("look", 0, Top(t).s)) /\ Did(t, "res")
            /\ UNCHANGED <<lockv, poolv, confv, thv, memov, clawv, wstate, fault>>

\* ---------------------------------------------------------------- next-state relation
AllDone == \A t \in Thr : stk[t] = <<>> /\ ip[t] = ProgLen
Finished == AllDone /\ UNCHANGED vars                 \* termination is the only allowed stuttering

Step(t) ==
  \/ Begin(t)
  \/ C_acq(t) \/ C_probe(t) \/ C_probe2(t) \/ C_fillold(t) \/ C_fill1(t) \/ C_fill2(t) \/ C_init(t) \/ C_rel(t) \/ C_ret(t)
  \/ T_acq(t) \/ T_probe(t) \/ T_fill(t) \/ T_rel(t) \/ T_ret(t)
  \/ PA_acq(t) \/ PA_test(t) \/ PA_pop(t) \/ PA_make(t) \/ PA_rel(t) \/ PR_acq(t) \/ PR_push(t) \/ PR_rel(t)
  \/ G_probe(t) \/ G_fill0(t) \/ G_bfs1(t) \/ G_bfs2(t) \/ G_fill(t) \/ G_ret(t)
  \/ B_tprobe(t) \/ B_wenter(t) \/ B_tfill(t) \/ B_wexit(t) \/ B_ret(t)
  \/ D_dprobe(t) \/ D_dfill(t) \/ D_init(t) \/ D_wenter(t) \/ D_gen(t) \/ D_wexit(t) \/ D_post(t) \/ D_ret(t)
  \/ H_acq(t) \/ H_gettop(t) \/ H_newtop(t) \/ H_getleaf(t) \/ H_newleaf(t) \/ H_check(t) \/ H_write(t) \/ H_rel(t) \/ H_ret(t)
  \/ L_acq(t) \/ L_read(t) \/ L_rel(t) \/ L_ret(t)

\* The same relation, dispatched on the label of the top frame (one action evaluated per thread instead
\* of 55 guards): used for the large runs; the disjunctive form keeps TLC's per-action coverage.
FastStep(t) ==
  IF stk[t] = <<>> THEN Begin(t)
  ELSE LET pc == Top(t).pc IN
    CASE
         pc = "C_acq" -> C_acq(t)
      [] pc = "C_probe" -> C_probe(t)
      [] pc = "C_probe2" -> C_probe2(t)
      [] pc = "C_fillold" -> C_fillold(t)
      [] pc = "C_fill1" -> C_fill1(t)
      [] pc = "C_fill2" -> C_fill2(t)
      [] pc = "C_init" -> C_init(t)
      [] pc = "C_rel" -> C_rel(t)
      [] pc = "C_ret" -> C_ret(t)
      [] pc = "T_acq" -> T_acq(t)
      [] pc = "T_probe" -> T_probe(t)
      [] pc = "T_fill" -> T_fill(t)
      [] pc = "T_rel" -> T_rel(t)
      [] pc = "T_ret" -> T_ret(t)
      [] pc = "PA_acq" -> PA_acq(t)
      [] pc = "PA_test" -> PA_test(t)
      [] pc = "PA_pop" -> PA_pop(t)
      [] pc = "PA_make" -> PA_make(t)
      [] pc = "PA_rel" -> PA_rel(t)
      [] pc = "PR_acq" -> PR_acq(t)
      [] pc = "PR_push" -> PR_push(t)
      [] pc = "PR_rel" -> PR_rel(t)
      [] pc = "G_probe" -> G_probe(t)
      [] pc = "G_fill0" -> G_fill0(t)
      [] pc = "G_bfs1" -> G_bfs1(t)
      [] pc = "G_bfs2" -> G_bfs2(t)
      [] pc = "G_fill" -> G_fill(t)
      [] pc = "G_ret" -> G_ret(t)
      [] pc = "B_tprobe" -> B_tprobe(t)
      [] pc = "B_wenter" -> B_wenter(t)
      [] pc = "B_tfill" -> B_tfill(t)
      [] pc = "B_wexit" -> B_wexit(t)
      [] pc = "B_ret" -> B_ret(t)
      [] pc = "D_dprobe" -> D_dprobe(t)
      [] pc = "D_dfill" -> D_dfill(t)
      [] pc = "D_init" -> D_init(t)
      [] pc = "D_wenter" -> D_wenter(t)
      [] pc = "D_gen" -> D_gen(t)
      [] pc = "D_wexit" -> D_wexit(t)
      [] pc = "D_post" -> D_post(t)
      [] pc = "D_ret" -> D_ret(t)
      [] pc = "H_acq" -> H_acq(t)
      [] pc = "H_gettop" -> H_gettop(t)
      [] pc = "H_newtop" -> H_newtop(t)
      [] pc = "H_getleaf" -> H_getleaf(t)
      [] pc = "H_newleaf" -> H_newleaf(t)
      [] pc = "H_check" -> H_check(t)
      [] pc = "H_write" -> H_write(t)
      [] pc = "H_rel" -> H_rel(t)
      [] pc = "H_ret" -> H_ret(t)
      [] pc = "L_acq" -> L_acq(t)
      [] pc = "L_read" -> L_read(t)
      [] pc = "L_rel" -> L_rel(t)
      [] pc = "L_ret" -> L_ret(t)

\* Steps that touch nothing but the thread's own control state (invocation, response, a call)
\* are taken at once: a sound reduction, since no other thread can observe or disable them.
LocalLbl == {"C_ret", "T_ret", "G_ret", "B_ret", "D_ret", "H_ret", "L_ret", "D_post"}
Urgent(t) == \/ stk[t] = <<>> /\ ip[t] < ProgLen
             \/ stk[t] # <<>> /\ Top(t).pc \in LocalLbl
Next == IF \E t \in Thr : Urgent(t)
        THEN Step(CHOOSE t \in Thr : Urgent(t))
        ELSE (\E t \in Thr : Step(t)) \/ Finished
FastNext == IF \E t \in Thr : Urgent(t)
            THEN FastStep(CHOOSE t \in Thr : Urgent(t))
            ELSE (\E t \in Thr : FastStep(t)) \/ Finished
FastSpec == Init /\ [][FastNext]_vars
Spec == Init /\ [][Next]_vars

\* ---------------------------------------------------------------- the sequential reference
\* What one thread running the operations one after the other obtains.  Memoisation is
\* invisible: singletons are named by their canonical key, generated code by its hint; only
\* the registry depends on the order.
SeqApply(rg, op) ==
  CASE op.k = "Conf" -> [rg |-> rg, r |-> R("conf", 0, San(op.a))]
    [] op.k = "TH"   -> [rg |-> rg, r |-> R("th", 0, op.a)]
    [] op.k = "Bear" -> [rg |-> rg, r |-> R("code", 0, op.a)]
    [] op.k = "Dec"  -> [rg |-> rg, r |-> R("code", 0, op.a)]
    [] op.k = "Hook" -> IF rg[op.a] \in {"none", op.b}
                        THEN [rg |-> [rg EXCEPT ![op.a] = op.b], r |-> R("hook", 0, "ok")]
                        ELSE [rg |-> rg, r |-> R("hook", 0, "exc")]
    [] op.k = "Look" -> [rg |-> rg, r |-> R("look", 0, rg[op.a])]

RECURSIVE SeqRuns(_, _, _, _)
SeqRuns(pr, pos, rg, acc) ==      \* all result vectors (and final registries) of sequential interleavings of pr
  IF \A t \in DOMAIN pr : pos[t] = Len(pr[t]) THEN { [v |-> acc, rg |-> rg] }
  ELSE UNION { LET a == SeqApply(rg, OpDef(pr[t][pos[t] + 1])) IN
                 SeqRuns(pr, [pos EXCEPT ![t] = @ + 1], a.rg, [acc EXCEPT ![t] = Append(@, a.r)])
               : t \in {u \in DOMAIN pr : pos[u] < Len(pr[u])} }
SeqOutcomesOf(pr) == SeqRuns(pr, [t \in DOMAIN pr |-> 0], [p \in Leaves |-> "none"], [t \in DOMAIN pr |-> <<>>])
SeqOutcomes == SeqOutcomesOf(prog)

\* projection of the concurrent results: an object id is named by the set of keys it was returned for
Slots == {<<t, i>> : t \in Thr, i \in 1..ProgLen}
OpAt(x) == OpDef(prog[x[1]][x[2]])
Canon(op) == IF op.k = "Conf" THEN San(op.a) ELSE op.a
NameOf(kind, n) ==
  LET ks == {Canon(OpAt(x)) : x \in {y \in Slots : OpAt(y).k = kind /\ res[y[1]][y[2]].n = n}} IN
    IF Cardinality(ks) = 1 THEN CHOOSE k \in ks : TRUE ELSE "shared-by-unequal-keys"
ProjR(x) ==
  LET r == res[x[1]][x[2]] IN
    CASE r.k = "conf" -> R("conf", 0, IF r.s = "ok" THEN NameOf("Conf", r.n) ELSE r.s)
      [] r.k = "th"   -> R("th", 0, NameOf("TH", r.n))
      [] OTHER        -> r
ProjRes == [t \in Thr |-> [i \in 1..ProgLen |-> ProjR(<<t, i>>)]]
FinalReg == [p \in Leaves |-> IF top /\ kids[p] \notin {"", "none"} THEN kids[p] ELSE "none"]

\* ---------------------------------------------------------------- properties
\* P1: exclusive scratch state
P1_Exclusive == \A t1, t2 \in Thr : t1 # t2 => holds[t1] \cap holds[t2] = {}
InPool(i) == \E k \in PoolKeys : i \in Range(pool[k])
P1_PoolIffFree == \A i \in 1..nextItem : InPool(i) <=> ~ \E t \in Thr : i \in holds[t]
P1_NoDuplicate == \A k \in PoolKeys : Cardinality(Range(pool[k])) = Len(pool[k])
Using(t) ==          \* items thread t is reading or writing as its private scratch state
  {stk[t][j].it : j \in {j \in DOMAIN stk[t] : stk[t][j].pc \in {"G_bfs2", "G_fill", "D_gen", "D_wenter", "D_wexit", "D_post"}}}
P1_UseHeld == \A t \in Thr : Using(t) \subseteq holds[t]
P1_NoFault == fault = "none"                          \* no exception, no double release, no pop from an empty pool

\* P2: singletons over all threads
Done(x) == Len(res[x[1]]) >= x[2]
P2_Singleton ==
  \A x, y \in Slots :
     (Done(x) /\ Done(y) /\ OpAt(x).k = OpAt(y).k /\ OpAt(x).k \in {"Conf", "TH"} /\ Canon(OpAt(x)) = Canon(OpAt(y)))
        => res[x[1]][x[2]].n = res[y[1]][y[2]].n
P2_OneIdPerKey ==    \* the tables themselves: raw and sanified key of one configuration agree once both are set
  \A k \in ConfKeys : (confMemo[k] # 0 /\ confMemo[San(k)] # 0 /\ lockOwner["conf"] = 0) => confMemo[k] = confMemo[San(k)]

\* P3: linearisability of the result vector; lock-free memos hold equal values; global state restored
P3_Linearisable == (AllDone /\ fault = "none") =>
                      \E o \in SeqOutcomes : o.v = ProjRes /\ o.rg = FinalReg
P3_MemoSound == /\ \A k \in ExprKeys : exprMemo[k] \in {"", k[1]}
                /\ \A h \in ExprHints : testMemo[h] \in {"", h}
P3_GlobalRestored == AllDone => wstate = "orig"

\* P4: no deadlock is TLC's own check (Finished is the only stuttering); no lost registration; lock order
P4_NoLostReg == \A x \in Slots : (Done(x) /\ OpAt(x).k = "Hook" /\ res[x[1]][x[2]].s = "ok")
                                    => (top /\ kids[OpAt(x).a] = OpAt(x).b)
RECURSIVE Reach(_, _)
Reach(S, n) == IF n = 0 THEN S ELSE Reach(S \cup {e[2] : e \in {e \in order : e[1] \in S}}, n - 1)
P4_LockOrder == \A l \in Locks : l \notin Reach({e[2] : e \in {e \in order : e[1] = l}}, Cardinality(Locks))

\* sanity of the lock model itself
LockSane == \A l \in Locks : (lockOwner[l] = 0) <=> (lockCnt[l] = 0)
=============================================================================
