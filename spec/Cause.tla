------------------------------- MODULE Cause -------------------------------
(***************************************************************************)
(* The EXPLANATION PATH (C03): a second, independent transcription of what   *)
(* beartype does with a rejected object - not of the generated check, but of  *)
(* the violation-cause finders that run after the generated check said "no"   *)
(* (beartype/_check/error: HintTreeError.find_cause, errpep484585container,   *)
(* errpep484585mapping, errpep484604 (unions), errpep586 (Literal),           *)
(* errpep593 (Annotated), errpep484585generic, errpep484585subclass,          *)
(* errnonpeptype) together with the item enumerators of the container logic   *)
(* (logcls.py: _get_cause_enumerator_item_...).                                  *)
(*                                                                         *)
(* CauseR(h, x, r, conf) is what find_cause() returns for hint h and pith x:  *)
(*    none   the finder believes x satisfies h (cause_str_or_none is None)     *)
(*    found  a cause, with the path of container steps that lead to it         *)
(*    error  the finder itself fails with a non-violation exception            *)
(* The design property (checked by TLC in MC_Cause): whenever the generated    *)
(* check rejects, the finder finds a cause - it never reports "none" (that is  *)
(* the internal desynchronisation error of get_hint_object_violation) and      *)
(* never fails ("a rejection never turns into ... any other non-violation      *)
(* exception").                                                                *)
(*                                                                         *)
(* Mutants (constant Mut of Semantics): "cause_len_first" is the 0.23.0       *)
(* discipline (len() of the pith before asking whether it is a collection),   *)
(* "cause_map_value_flag_from_key" and "cause_quasi_first" are two seeded      *)
(* code changes (seeded/C03, seeded/C11).                                      *)
(***************************************************************************)
EXTENDS Semantics

CNone     == [f |-> "none",  p |-> <<>>]
CFound(p) == [f |-> "found", p |-> p]
CErr(w)   == [f |-> "error", p |-> <<w>>]
\* prefix a container step to a cause found below it ("list index 2 item ...")
CPre(step, c) == IF c.f = "found" THEN CFound(<<step>> \o c.p) ELSE c

HasLen(x) == InstOf(x, "Sized")

\* the isinstanceable origin type of a PEP-compliant hint ("" = none: Literal, Annotated, unions)
Origin(h) ==
  CASE h.k \in {"cls", "seq", "reit", "quasi", "shallow", "map", "gen"} -> h.s
    [] h.k = "tupf" -> "tuple"
    [] h.k = "type" -> "type"
    [] h.k = "rec"  -> "list"
    [] OTHER -> ""

NotInst == CFound(<<"notinst">>)
Step(tag, i) == tag \o ToString(i)

RECURSIVE CauseR(_, _, _, _), CauseUnion(_, _, _, _, _), CauseTup(_, _, _, _, _), CauseVale(_, _, _)

\* errpep593: the first validator (in order) whose is_valid() is false
CauseVale(vs, i, x) ==
  IF i > Len(vs) THEN CNone
  ELSE IF ValSem(vs[i], x) THEN CauseVale(vs, i + 1, x)
  ELSE CFound(<<Step("vale", i - 1)>>)

\* errpep484604: members in order; a satisfied member ends the search with "no cause"
CauseUnion(ms, i, x, r, conf) ==
  IF i > Len(ms) THEN CFound(<<"union">>)
  ELSE LET m == ms[i] IN
       IF Ignorable(m) THEN CauseUnion(ms, i + 1, x, r, conf)
       ELSE IF m.k = "cls"                            \* a plain class: isinstance()
       THEN (IF InstOf(x, m.s) THEN CNone ELSE CauseUnion(ms, i + 1, x, r, conf))
       ELSE IF Origin(m) # "" /\ ~InstOf(x, Origin(m)) \* a PEP hint whose origin type already excludes x
       THEN CauseUnion(ms, i + 1, x, r, conf)
       ELSE LET c == CauseR(m, x, r, conf) IN
            IF c.f = "found" THEN CauseUnion(ms, i + 1, x, r, conf) ELSE c

\* errpep484585container.find_cause_pep484585_tuple_fixed: items in order, ignorable children skipped
CauseTup(hs, i, x, r, conf) ==
  IF i > Len(hs) THEN CNone
  ELSE IF Ignorable(hs[i]) THEN CauseTup(hs, i + 1, x, r, conf)
  ELSE LET c == CauseR(hs[i], ItemsOf(x)[i], r, conf) IN
       IF c.f = "none" THEN CauseTup(hs, i + 1, x, r, conf) ELSE CPre(Step("idx", i - 1), c)

CauseR(h, x, r, conf) ==
  IF Ignorable(h) THEN CNone ELSE
  CASE h.k \in {"cls", "shallow"} -> IF InstOf(x, h.s) THEN CNone ELSE NotInst
    [] h.k = "lit" ->
         IF \E i \in DOMAIN h.m : InstOf(x, h.m[i].cls) /\ PyEq(x, h.m[i]) THEN CNone
         ELSE IF ~\E i \in DOMAIN h.m : InstOf(x, h.m[i].cls) THEN NotInst
         ELSE CFound(<<"lit">>)
    [] h.k = "type" ->
         IF x.k # "type" THEN NotInst
         ELSE IF Ignorable(h.a[1]) \/ ChkR(h.a[1], Atom(x.cls, 0), r, conf) THEN CNone
         ELSE CFound(<<"notsub">>)
    [] h.k = "union" -> CauseUnion(FlatMembers(h.a), 1, x, r, conf)
    [] h.k = "tupf" ->
         IF ~InstOf(x, "tuple") THEN NotInst
         ELSE IF Len(h.a) = 0 THEN (IF LenOf(x) = 0 THEN CNone ELSE CFound(<<"nonempty">>))
         ELSE IF LenOf(x) # Len(h.a) THEN CFound(<<"len">>)
         ELSE CauseTup(h.a, 1, x, r, conf)
    [] h.k \in {"seq", "reit", "quasi"} ->
         IF ~InstOf(x, h.s) THEN NotInst
         ELSE IF Mut = "cause_len_first" /\ ~HasLen(x) THEN CErr("len")     \* 0.23.0: not len(pith) comes first
         ELSE IF Ignorable(h.a[1]) \/ ~IsCollection(x) \/ LenOf(x) = 0 THEN CNone
         ELSE LET i == IF h.k = "seq" \/ (h.k = "quasi" /\ Mut # "cause_quasi_first" /\ InstOf(x, "Sequence"))
                       THEN Pick(LenOf(x), r, conf) ELSE 1 IN
              CPre(Step("idx", i - 1), CauseR(h.a[1], ItemsOf(x)[i], r, conf))
    [] h.k = "map" ->
         IF ~InstOf(x, h.s) THEN NotInst
         ELSE IF Len(x.items) = 0 THEN CNone
         ELSE LET kv == x.items[1]
                  ck == IF Ignorable(h.a[1]) THEN CNone ELSE CauseR(h.a[1], kv.key, r, conf) IN
              IF ck.f # "none" THEN CPre("key", ck)
              ELSE IF Ignorable(IF Mut = "cause_map_value_flag_from_key" THEN h.a[1] ELSE h.a[2]) THEN CNone
              ELSE CPre("val", CauseR(h.a[2], kv.val, r, conf))
    [] h.k = "items" ->      \* reduced to Annotated[Collection[tuple[K, V]], IsInstance[ItemsView]]
         LET c == CauseR(HReit("Collection", HTupF(h.a)), x, r, conf) IN
         IF c.f # "none" THEN c ELSE IF InstOf(x, "ItemsView") THEN CNone ELSE CFound(<<"vale0">>)
    [] h.k = "rec" -> CauseR(RecExp(h), x, r, conf)
    [] h.k = "gen" ->
         IF ~InstOf(x, h.s) THEN NotInst ELSE CPre("generic", CauseR(GenBase(h), x, r, conf))
    [] h.k = "ann" ->
         LET c == CauseR(h.a[1], x, r, conf) IN
         IF c.f # "none" THEN c ELSE CauseVale(h.m, 1, x)

Cause(h, x, r, conf) == CauseR(Rewrite(h, conf), x, r, conf)

\* the path as one string ("idx0/key/notinst")
RECURSIVE JoinPath(_)
JoinPath(p) == IF p = <<>> THEN "" ELSE IF Len(p) = 1 THEN p[1] ELSE p[1] \o "/" \o JoinPath(Tail(p))
CauseStr(c) == c.f \o ":" \o JoinPath(c.p)
=============================================================================
