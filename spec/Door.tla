------------------------------- MODULE Door -------------------------------
(***************************************************************************)
(* beartype.door entry points, @beartype decoration and every memo table   *)
(* that lies between a query and its answer (C14: memoisation is           *)
(* invisible).                                                             *)
(*                                                                         *)
(* Anchors (beartype 0.23.0):                                              *)
(*   tester, raiser  door/_func/doorfunc.py  _HINT_CONF_EXCEPTION_PREFIX_  *)
(*                   TO_FUNC_{TESTER,RAISER}; probed/filled by             *)
(*                   _check/checkmake.py make_func_checker, key            *)
(*                   (hint, conf, prefix) by Python ==/hash  (EqKey)       *)
(*   dedup           _check/convert/_convcoerce.py _hint_repr_to_hint,     *)
(*                   key repr(hint) (ReprKey), strong                      *)
(*   reprc           _util/hint/utilhintget.py get_hint_repr, a            *)
(*                   callable_cached closure (EqKey, never cleared)        *)
(*   sane            _check/cls/hint/hintsane.py _HINT_TO_HINTSANE (EqKey) *)
(*   expr            _check/code/codemain.py _HINT_CONF_TO_CHECK_EXPR,     *)
(*                   key (hint_sane, conf), only if is_check_expr_cacheable*)
(*   wrap            door/_cls/doormeta.py _HINT_TO_WRAPPER (EqKey,        *)
(*                   strong; unhashable hints fall back to uncached)       *)
(*   subt, eqt       door/_cls/doorsuper.py TypeHint.is_subhint / __eq__   *)
(*                   under method_cached_arg_by_id: key (id(self),id(arg)) *)
(*                   (IdKey), never invalidated, not in clear_caches()     *)
(*   funcs[i].res    _check/forward/reference/_cls/fwdrefmeta.py           *)
(*                   _ref_proxy_to_resolved_type, one proxy per decorated  *)
(*                   callable                                              *)
(*   Clear           _util/cache/utilcacheclear.py clear_caches(), reached *)
(*                   through _decor/_type/decortype.py                     *)
(*                   _uncache_beartype_if_type_redefined (decorated class  *)
(*                   redefined) -- class "D" below                         *)
(*                                                                         *)
(* The heap.  Class objects are (name, generation): redefining a name      *)
(* creates a new, unequal class with the same repr.  Hint objects are      *)
(* immutable and no table is keyed by the address of a hint (id() occurs   *)
(* only in method_cached_arg_by_id and in scope names whose scope holds    *)
(* the object), so a hint object is represented by its value               *)
(*   [sh shape, n class name, sp spelling, g generation captured]          *)
(* with three derived notions:  HKey = Python ==/hash class (spelling is   *)
(* ignored: A|None == None|A, 1 == True),   ReprOf = repr (generation is    *)
(* ignored), identity of the captured class = (n, g).  TypeHint wrapper    *)
(* OBJECTS have an identity u and an address a; Alloc picks a fresh        *)
(* address or ANY free address that still occurs in a key of subt/eqt      *)
(* (reusing any other free address is indistinguishable from a fresh one). *)
(* A wrapper is freed when neither wrap (strong) nor the user (held) nor a *)
(* live parent wrapper references it.                                      *)
(*                                                                         *)
(* Every query is one action composed of the code's control points         *)
(*   Probe ; (Hit -> Return) | (Miss -> Coerce ; Sane ; Expr ; Fill ; Ret) *)
(* (operators DoorChecker, Coerce, CompileExpr, CLook, SubEval); last      *)
(* records                                                                 *)
(* the answer, the declarative Fresh(q) and which path was taken.          *)
(*                                                                         *)
(* Legacy selects the keying discipline per table:                         *)
(*   "repr_dedup"      0.23.0: dedup replaces a hint by ANY earlier hint   *)
(*                     with the same repr            (intended: only if == *)
(*   "id_unvalidated"  0.23.0: subt/eqt hit on the address pair alone      *)
(*                     (intended: the entry must belong to these objects)  *)
(*   "registry_wiped"  0.23.0: clear_caches() is followed by                 *)
(*                     _BEARTYPED_MODULE_TO_TYPE_NAME.clear(): every OTHER   *)
(*                     decorated class is forgotten, so its next             *)
(*                     redefinition does not clear the caches                *)
(* faithful = all three; intended = {}.  Spec mutants (wrong designs        *)
(* that TLC must reject on top of the intended discipline):                *)
(*   "tester_noconf"        checker cache keyed without the configuration  *)
(*   "cache_uncacheable"    checker cached although is_check_expr_cacheable*)
(*                          is False (forward reference baked in)          *)
(*   "cache_fwd_exc"        the failure of an unresolved forward reference *)
(*                          is memoised                                    *)
(*   "cacheable_last_child" a hint tree's cacheability is that of the LAST  *)
(*                          child visited instead of the conjunction over   *)
(*                          all children (tuple['A', int] becomes cacheable)*)
(*   "clear_forgets_reftype" clear_caches() forgets the table of classes    *)
(*                          that proxies use for issubclass()               *)
(*   "clear_forgets_dedup"  clear_caches() forgets _hint_repr_to_hint      *)
(*                          (on top of "repr_dedup": the decorated-class   *)
(*                          path that 0.23.0 gets right must break)        *)
(***************************************************************************)
EXTENDS Integers, Sequences, FiniteSets, TLC

CONSTANTS Legacy,     \* set of strings, see above
          Scope,      \* "repr" | "reprT" | "reprD" | "id" | "idT" | "idC" | "fail" | "conf" | "misc" | "mix" | "mixB" | "tref" | "all": the slice of the universe explored
          MaxOps      \* history length bound

(* ---------------------------------------------------------------- universe *)
InitGen == [A |-> 0, B |-> 0, U |-> -1, D |-> 0, E |-> 0, W |-> -1]     \* U, W are undefined at first (forward references)
MaxGen  == [A |-> 1, B |-> 0, U |-> 0, D |-> 1, E |-> 0, W |-> 1]
ClassNames == {"A", "B", "U", "D", "E", "W"}      \* E: the class that a SECOND module binds to the name "A"
Decorated  == {"D", "W"}     \* D, W are themselves @beartype-decorated: redefining them runs clear_caches()
                             \* (W: defined late and then redefined -- referenced before it exists, used, rebound)

Dsc(sh, n, sp) == [sh |-> sh, n |-> n, sp |-> sp]
\* the catalogue: descriptor name -> how the hint is written
HD == TLCEval([cA |-> Dsc("cls", "A", 0),  cB |-> Dsc("cls", "B", 0),  cD |-> Dsc("cls", "D", 0),
       lA |-> Dsc("list", "A", 0), lB |-> Dsc("list", "B", 0), lD |-> Dsc("list", "D", 0),
       uA0 |-> Dsc("uni", "A", 0), uA1 |-> Dsc("uni", "A", 1),          \* A | None  and  None | A
       aA |-> Dsc("ann", "A", 0),  aB |-> Dsc("ann", "B", 0),            \* Annotated[A, []]: unhashable
       rA |-> Dsc("ref", "A", 0),  rU |-> Dsc("ref", "U", 0),            \* 'A', 'U'
       ob |-> Dsc("obj", "-", 0),  fl |-> Dsc("flt", "-", 0),            \* object, float
       b1 |-> Dsc("bad", "-", 0),  bT |-> Dsc("bad", "-", 1),            \* 1, True: not hints at all
       eA0 |-> Dsc("eqv", "A", 0), eA1 |-> Dsc("eqv", "A", 1),          \* Annotated[A, 1] == Annotated[A, True]
       L1 |-> Dsc("lit", "1", 0),  LT |-> Dsc("lit", "T", 0),            \* Literal[1] != Literal[True]
       \* multi-child hints mixing an uncacheable child (the forward reference 'A') with cacheable siblings, both orders;
       \* for forward references sp is the MODULE the question is asked from (0: where A is (re)defined, 1: a second
       \* module binding the name "A" to its own class E): the hints are equal, what they mean is not
       xF |-> Dsc("mxF", "A", 0),  xF2 |-> Dsc("mxF", "A", 1),          \* tuple['A', int]            (asked from either module)
       xL |-> Dsc("mxL", "A", 0),  xM |-> Dsc("mxM", "A", 0),            \* tuple[int, 'A'], tuple[int, 'A', int]
       xD |-> Dsc("mxD", "A", 0),  xN |-> Dsc("mxN", "A", 0),            \* dict['A', int], tuple['A', list[int]]
       \* type['W']: the subjects are CLASSES, checked by issubclass() against the proxy, which remembers the class in a
       \* table of its own (_ref_proxy_to_resolved_type); 'W' goes through the other one (_ref_proxy_to_resolved_hint)
       tW |-> Dsc("tref", "W", 0), rW |-> Dsc("ref", "W", 0)])
MixShapes == {"mxF", "mxL", "mxM", "mxD", "mxN"}
\* per child, in the order the code generator visits them: is that child's check expression cacheable?
Kids(sh) == CASE sh \in {"mxF", "mxD", "mxN"} -> <<FALSE, TRUE>> [] sh = "mxL" -> <<TRUE, FALSE>> [] sh = "mxM" -> <<TRUE, FALSE, TRUE>>
RefLikeSh(sh) == sh \in {"ref", "tref"} \/ sh \in MixShapes

In(s) == Scope \in s
BearHDs == CASE In({"repr"})  -> {"lA", "uA0", "uA1", "cA"}
             [] In({"reprT"}) -> {"lA", "cA"}        \* replayed under every theme of the concretiser (class, NewType, Enum, validator)
             [] In({"reprD"}) -> {"lD", "cD"}
             [] In({"fail"})  -> {"rU", "rA", "b1", "bT"}
             [] In({"conf"})  -> {"fl"}
             [] In({"misc"})  -> {"eA0", "eA1", "L1", "LT"}       \* ==-equal spellings, ==-unequal look-alikes
             [] In({"mix"})   -> {"xF", "xF2", "xL", "xM"}
             [] In({"mixB"})  -> {"xD", "xN"}
             [] In({"tref"})  -> {"tW"}
             [] In({"all"})   -> {"lA", "uA0", "uA1", "cA", "lD", "rU", "rA", "b1", "bT", "fl", "aA", "eA0", "eA1", "L1", "LT",
                                  "xF", "xF2", "xL"}
             [] OTHER         -> {}
DecoHDs == CASE In({"repr"})  -> {"lA", "uA0"}
             [] In({"reprT"}) -> {"lA"}
             [] In({"reprD"}) -> {"lD"}
             [] In({"fail"})  -> {"rU", "rA", "b1"}
             [] In({"conf"})  -> {"fl"}
             [] In({"misc"})  -> {"eA1"}
             [] In({"mix"})   -> {"xF", "xF2"}
             [] In({"mixB"})  -> {"xD"}
             [] In({"tref"})  -> {"tW", "rW"}
             [] In({"all"})   -> {"lA", "uA0", "lD", "rU", "rA", "fl", "b1", "eA1", "xF"}
             [] OTHER         -> {}
ConfsS  == IF In({"conf", "all"}) THEN {"c0", "c1"} ELSE {"c0"}     \* c1 = BeartypeConf(is_pep484_tower=True)
SubPairsS == (CASE In({"id", "all"}) -> {<<"cA", "cB">>, <<"cA", "ob">>, <<"ob", "cA">>, <<"cA", "cA">>,
                                       <<"aA", "cA">>, <<"aB", "cA">>, <<"lA", "lA">>, <<"lB", "lA">>}
                [] In({"idT"}) -> {<<"aA", "cA">>, <<"aB", "cA">>, <<"cA", "cA">>, <<"lB", "lA">>}   \* transient wrappers, no clear
                [] In({"idC"}) -> {<<"cA", "ob">>, <<"ob", "cA">>, <<"cA", "cB">>}                  \* hashable hints + clear_caches
                [] OTHER -> {}) \cup
             (IF In({"fail", "all"}) THEN {<<"rU", "ob">>, <<"b1", "ob">>} ELSE {})
EqPairsS == CASE In({"id", "all"}) -> {<<"cA", "cB">>, <<"cA", "cA">>, <<"ob", "cA">>}
              [] In({"idC"}) -> {<<"cA", "cB">>, <<"ob", "ob">>}
              [] OTHER -> {}
HoldHDs  == CASE In({"id", "all"}) -> {"aA", "cB"} [] In({"idT"}) -> {"aA"} [] OTHER -> {}
LeHeldHDs == IF In({"id", "idT", "all"}) THEN {"cA"} ELSE {}
RedefS  == CASE In({"repr", "reprT", "mix", "mixB"}) -> {"A"} [] In({"tref"}) -> {"W"} [] In({"reprD"}) -> {"D"} [] In({"fail"}) -> {"U", "A"}
             [] In({"all"}) -> {"A", "D", "U"} [] OTHER -> {}
ClearS  == In({"repr", "reprT", "reprD", "id", "idC", "mix", "mixB", "tref", "all"})
ProbeNames == CASE In({"repr", "reprT", "misc", "mixB"}) -> {"A"} [] In({"reprD"}) -> {"D"} [] In({"fail"}) -> {"A", "U"}
                [] In({"mix"}) -> {"A", "E"} [] In({"tref"}) -> {"W"} [] In({"all"}) -> {"A", "D", "U", "E"} [] OTHER -> {}
MaxFuncs == 2

VARIABLES gen,      \* class name -> current generation (-1: name not defined yet)
          tester, raiser, dedup, reprc, sane, expr,      \* memo tables of the checker pipeline
          wrap, wobj, held, subt, eqt,                   \* TypeHint wrappers and the id-keyed tables
          funcs,    \* decorated callables
          decreg,   \* names of decorated classes that decortype.py remembers (_BEARTYPED_MODULE_TO_TYPE_NAME)
          nexta, nextu, nops,
          last      \* the last operation: answer, Fresh(q), path taken
vars == <<gen, tester, raiser, dedup, reprc, sane, expr, wrap, wobj, held, subt, eqt, funcs, decreg, nexta, nextu, nops, last>>

(* ------------------------------------------------------------ hint values *)
HintOf(dn) == LET d == HD[dn] IN
  [sh |-> d.sh, n |-> d.n, sp |-> d.sp, g |-> IF d.n \in ClassNames /\ ~RefLikeSh(d.sh) THEN gen[d.n] ELSE 0]
\* writing list[A] needs the name A to be bound; a string does not
CanBuild(dn) == LET d == HD[dn] IN IF RefLikeSh(d.sh) \/ d.n \notin ClassNames THEN TRUE ELSE gen[d.n] >= 0

HKey(h)  == [sh |-> h.sh, n |-> h.n, g |-> h.g]        \* Python == / hash class
ReprOf(h) == [sh |-> h.sh, n |-> h.n, sp |-> h.sp]     \* repr(): the generation is invisible
Hashable(h)    == h.sh # "ann"
CacheWorthy(h) == h.sh \in {"list", "uni"}             \* is_hint_cacheworthy: PEP 585 builtin subscription, PEP 604 union
IsHint(h)      == h.sh # "bad"
RefLike(h)     == RefLikeSh(h.sh)
\* HintSane.is_check_expr_cacheable / HintTreeCode.is_check_expr_cacheable: a tree is cacheable iff EVERY child is
\* (hinttreecode.py sanify_hint_child: `&=`); spec mutant "cacheable_last_child": the last child visited decides (`=`)
ExprCacheable(h) ==
  Hashable(h) /\
  (IF h.sh \in MixShapes
   THEN LET k == Kids(h.sh) IN IF "cacheable_last_child" \in Legacy THEN k[Len(k)] ELSE \A i \in 1..Len(k) : k[i]
   ELSE h.sh \notin {"ref", "tref"} \/ "cache_uncacheable" \in Legacy)
\* the class a forward reference to name n means when asked from module m
RN(n, m) == IF m = 1 THEN "E" ELSE n
Resolved(sh, rn, g) == [sh |-> CASE sh = "ref" -> "cls" [] sh = "tref" -> "typr" [] OTHER -> "mixr", n |-> rn, g |-> g]
\* the compiled value of a hint; for a forward reference g holds the module its proxy resolves in
CV(h) == IF RefLike(h) THEN [sh |-> h.sh, n |-> h.n, g |-> h.sp] ELSE HKey(h)
NeedsRes(cv) == RefLikeSh(cv.sh)

(* ---------------------------------------- declarative semantics of a hint *)
TT == [w |-> "T", n |-> "-", g |-> 0]                  \* the one "probe" of boolean answers
\* "mix": the container the asking hint describes (tuple / dict ...) holding an instance at the forward reference's place
\* "type": the class object itself (the subject of type[...] hints)
Probes == {[w |-> w, n |-> n, g |-> g] : w \in {"bare", "list", "mix", "type"}, n \in ProbeNames, g \in 0..1} \cup
          {[w |-> x, n |-> "-", g |-> 0] : x \in {"none", "int", "true", "float"}}      \* None, 1, True, 1.5
Exists(p) == p.n \notin ClassNames \/ p.g <= gen[p.n]
Sat(p, cv, conf) ==
  CASE cv.sh \in {"cls", "ann", "eqv"} -> p.w = "bare" /\ p.n = cv.n /\ p.g = cv.g
    [] cv.sh = "list" -> p.w = "list" /\ p.n = cv.n /\ p.g = cv.g
    [] cv.sh = "mixr" -> p.w = "mix" /\ p.n = cv.n /\ p.g = cv.g
    [] cv.sh = "typr" -> p.w = "type" /\ p.n = cv.n /\ p.g = cv.g
    [] cv.sh = "uni"  -> (p.w = "bare" /\ p.n = cv.n /\ p.g = cv.g) \/ p.w = "none"
    [] cv.sh = "obj"  -> TRUE
    [] cv.sh = "flt"  -> p.w = "float" \/ (p.w \in {"int", "true"} /\ conf = "c1")       \* bool is an int
    [] cv.sh = "lit"  -> (cv.n = "1" /\ p.w \in {"int", "true"}) \/ (cv.n = "T" /\ p.w = "true")
                         \* as beartype checks Literal: isinstance(obj, type(member)) and obj == member, so True passes Literal[1]
                         \* (whether it should is C01's question; the memo tables only need the semantics as they are)
    [] OTHER -> FALSE
Ans(exc, acc) == [exc |-> exc, acc |-> acc]
NoAns == Ans("none", {})
Bool(b) == Ans("none", IF b THEN {TT} ELSE {})
Accepted(cv, conf) == {p \in Probes : Exists(p) /\ Sat(p, cv, conf)}
\* an unbound name raises when a check needs it; type['W'] needs it only for subjects that are classes, and while W is
\* unbound no probe of this universe is one
Unbound(sh) == IF sh = "tref" THEN Ans("none", {}) ELSE Ans("fwdref", {})
\* what a compiled checker answers NOW; cv = [sh, n, g], with forward references resolved at the call
Verdicts(cv, conf) ==
  CASE cv.sh = "raise" -> Ans("fwdref", {})
    [] cv.sh = "bad"   -> Ans("nonpep", {})
    [] NeedsRes(cv)    -> LET rn == RN(cv.n, cv.g) IN
                          IF gen[rn] < 0 THEN Unbound(cv.sh) ELSE Ans("none", Accepted(Resolved(cv.sh, rn, gen[rn]), conf))
    [] OTHER -> Ans("none", Accepted(cv, conf))
\* Fresh(q) for is_bearable / die_if_unbearable / a decorated call: the hint AS WRITTEN, empty tables
FreshCheck(h, conf) == Verdicts(CV(h), conf)

LeafSub(x, y) == y.sh = "obj" \/ (x.sh = "cls" /\ y.sh = "cls" /\ x.n = y.n /\ x.g = y.g)
\* Fresh(q) for is_subhint / TypeHint <= on the shapes of SubPairsS (classes are unrelated)
FreshSub(a, b) ==
  IF a.sh \in {"ref", "bad"} \/ b.sh \in {"ref", "bad"} THEN Ans("doornonpep", {})
  ELSE Bool(CASE b.sh = "obj" -> TRUE
              [] a.sh \in {"cls", "ann"} /\ b.sh = "cls" -> a.n = b.n /\ a.g = b.g
              [] a.sh = "list" /\ b.sh = "list" -> a.n = b.n /\ a.g = b.g
              [] OTHER -> FALSE)
FreshEq(a, b) == IF FreshSub(a, b).exc # "none" THEN FreshSub(a, b)
                 ELSE Bool(FreshSub(a, b).acc # {} /\ FreshSub(b, a).acc # {})

(* ------------------------------------------------ the checker pipeline *)
\* get_hint_repr: callable_cached, keyed by ==: an equal hint spelled differently gets the first spelling's repr
GetRepr(h, rc) ==
  LET hit == {e \in rc : e.k = HKey(h)} IN
  IF hit # {} THEN [r |-> (CHOOSE e \in hit : TRUE).r, rc |-> rc]
  ELSE [r |-> ReprOf(h), rc |-> rc \cup {[k |-> HKey(h), r |-> ReprOf(h)]}]

\* coerce_hint_any: repr-keyed de-duplication
Coerce(h, dd, rc) ==
  IF ~CacheWorthy(h) THEN [h |-> h, dd |-> dd, rc |-> rc, swap |-> FALSE]
  ELSE LET gr == GetRepr(h, rc)
           hit == {e \in dd : e.r = gr.r} IN
       IF hit = {} THEN [h |-> h, dd |-> dd \cup {[r |-> gr.r, h |-> h]}, rc |-> gr.rc, swap |-> FALSE]
       ELSE LET old == (CHOOSE e \in hit : TRUE).h IN
            IF "repr_dedup" \in Legacy \/ HKey(old) = HKey(h)
            THEN [h |-> old, dd |-> dd, rc |-> gr.rc, swap |-> HKey(old) # HKey(h)]    \* swap: a DIFFERENT hint came back
            ELSE [h |-> h, dd |-> dd, rc |-> gr.rc, swap |-> FALSE]

\* the value a checker is compiled to; a forward reference stays a reference unless (mutant) it is baked in
Compiled(h) ==
  IF RefLike(h) /\ ExprCacheable(h)         \* (only under a mutant) a cached checker keeps what its proxy resolved to
  THEN LET rn == RN(h.n, h.sp) IN
       (IF gen[rn] < 0 THEN [sh |-> IF "cache_fwd_exc" \in Legacy THEN "raise" ELSE h.sh, n |-> h.n, g |-> h.sp]
        ELSE Resolved(h.sh, rn, gen[rn]))
  ELSE CV(h)

\* HintSane(...) then make_check_expr(hint_sane, conf)
CompileExpr(h, conf, sn, ex) ==
  LET sn2 == IF Hashable(h) THEN sn \cup {HKey(h)} ELSE sn
      hit == {e \in ex : ExprCacheable(h) /\ e.k = HKey(h) /\ e.conf = conf} IN
  IF hit # {} THEN [cv |-> (CHOOSE e \in hit : TRUE).cv, sn |-> sn2, ex |-> ex, hit |-> TRUE]
  ELSE LET cv == Compiled(h) IN
       [cv |-> cv, sn |-> sn2, hit |-> FALSE,
        ex |-> IF ExprCacheable(h) /\ ~NeedsRes(cv) THEN ex \cup {[k |-> HKey(h), conf |-> conf, cv |-> cv]} ELSE ex]

\* make_func_checker(hint, conf, prefix, ..., table)
DoorChecker(tab, h, conf) ==
  LET hit == {e \in tab : Hashable(h) /\ e.k = HKey(h) /\ (e.conf = conf \/ "tester_noconf" \in Legacy)} IN
  IF hit # {}
  THEN [cv |-> (CHOOSE e \in hit : TRUE).cv, cc |-> (CHOOSE e \in hit : TRUE).conf,      \* cc: the configuration compiled in
        tab |-> tab, dd |-> dedup, rc |-> reprc, sn |-> sane, ex |-> expr, hit |-> TRUE, swap |-> FALSE]
  ELSE IF ~IsHint(h)
  THEN [cv |-> [sh |-> "bad", n |-> "-", g |-> 0], cc |-> conf, tab |-> tab, dd |-> dedup, rc |-> reprc, sn |-> sane,
        ex |-> expr, hit |-> FALSE, swap |-> FALSE]
  ELSE LET co == TLCEval(Coerce(h, dedup, reprc))
           ce == TLCEval(CompileExpr(co.h, conf, sane, expr)) IN
       [cv |-> ce.cv, cc |-> conf, dd |-> co.dd, rc |-> co.rc, sn |-> ce.sn, ex |-> ce.ex, hit |-> FALSE, swap |-> co.swap,
        tab |-> IF Hashable(h) /\ ExprCacheable(co.h) /\ ~NeedsRes(ce.cv)
                THEN tab \cup {[k |-> HKey(h), conf |-> conf, cv |-> ce.cv]} ELSE tab]

Rec(op, a, b, ret, fresh, judged, hit, stale, swap) ==
  [op |-> op, a |-> a, b |-> b, ret |-> ret, fresh |-> fresh, judged |-> judged, hit |-> hit, stale |-> stale, swap |-> swap]

Step == nops < MaxOps /\ nops' = nops + 1
WrapUnch == UNCHANGED <<wrap, wobj, held, subt, eqt, nexta, nextu>>

\* is_bearable(probe, hint, conf=conf) for every probe object
Bearable(dn, conf) ==
  /\ Step /\ CanBuild(dn)
  /\ LET h == HintOf(dn)  r == TLCEval(DoorChecker(tester, h, conf)) IN
     /\ tester' = r.tab /\ dedup' = r.dd /\ reprc' = r.rc /\ sane' = r.sn /\ expr' = r.ex
     /\ last' = Rec("bearable", dn, conf, Verdicts(r.cv, r.cc), FreshCheck(h, conf), TRUE, r.hit, FALSE, r.swap)
  /\ UNCHANGED <<gen, raiser, funcs, decreg>> /\ WrapUnch

\* die_if_unbearable(probe, hint, conf=conf): acc = the probes that do NOT raise
Die(dn, conf) ==
  /\ Step /\ CanBuild(dn)
  /\ LET h == HintOf(dn)  r == TLCEval(DoorChecker(raiser, h, conf)) IN
     /\ raiser' = r.tab /\ dedup' = r.dd /\ reprc' = r.rc /\ sane' = r.sn /\ expr' = r.ex
     /\ last' = Rec("die", dn, conf, Verdicts(r.cv, r.cc), FreshCheck(h, conf), TRUE, r.hit, FALSE, r.swap)
  /\ UNCHANGED <<gen, tester, funcs, decreg>> /\ WrapUnch

\* @beartype(conf=conf) def f(x: hint): the hint is coerced and compiled at decoration time
Decorate(dn, conf) ==
  /\ Step /\ CanBuild(dn) /\ Len(funcs) < MaxFuncs
  /\ LET h == HintOf(dn) IN
     IF ~IsHint(h)
     THEN /\ last' = Rec("decorate", dn, conf, Ans("nonpep", {}), Ans("nonpep", {}), TRUE, FALSE, FALSE, FALSE)
          /\ UNCHANGED <<funcs, dedup, reprc, sane, expr>>
     ELSE LET co == TLCEval(Coerce(h, dedup, reprc))
              ce == TLCEval(CompileExpr(co.h, conf, sane, expr)) IN
          /\ LET rn == RN(h.n, h.sp)
                 own == RefLike(h) /\ ~ExprCacheable(co.h)      \* the reference is this callable's own business:
                 lazy == own /\ gen[rn] < 0                      \*   unbound now: a proxy, resolved at a call that needs it
                 eager == own /\ gen[rn] >= 0 IN                 \*   bound now: the class is substituted while decorating
             funcs' = Append(funcs, [dn |-> dn, h |-> h, conf |-> conf,
                                     cv |-> IF lazy THEN CV(h) ELSE IF eager THEN Resolved(h.sh, rn, gen[rn]) ELSE ce.cv,
                                     res |-> IF lazy THEN -1 ELSE -2,      \* _ref_proxy_to_resolved_hint[proxy]  (-2: no proxy)
                                     rt |-> -1,                            \* _ref_proxy_to_resolved_type[proxy]
                                     cl |-> FALSE,                         \* clear_caches() ran since the proxy last resolved
                                     dg |-> IF RefLike(h) THEN gen[rn] ELSE -2])   \* what the name meant when decorating
          /\ dedup' = co.dd /\ reprc' = co.rc /\ sane' = ce.sn /\ expr' = ce.ex
          /\ last' = Rec("decorate", dn, conf, NoAns, NoAns, TRUE, ce.hit, FALSE, co.swap)
  /\ UNCHANGED <<gen, tester, raiser, decreg>> /\ WrapUnch

\* f(probe) for every probe object.  A proxy resolves its name at the first call that needs it and remembers the
\* result: instance checks in _ref_proxy_to_resolved_hint, issubclass checks (type['W']) in _ref_proxy_to_resolved_type,
\* which is consulted first and filled from the other.  clear_caches() empties both.  A proxy that resolved BEFORE its
\* name was rebound and was not cleared since keeps the old class: whether it should is C07's question (not judged).
Call(i) ==
  /\ Step /\ i \in 1..Len(funcs)
  /\ LET f == funcs[i] IN
     IF f.res = -2
     THEN /\ last' = Rec("call", f.dn, f.conf, Verdicts(f.cv, f.conf),
                         IF RefLike(f.h) /\ f.dg >= 0
                         THEN Ans("none", Accepted(Resolved(f.h.sh, RN(f.h.n, f.h.sp), f.dg), f.conf))
                         ELSE FreshCheck(f.h, f.conf),
                         TRUE, FALSE, FALSE, FALSE)
          /\ UNCHANGED funcs
     ELSE LET n == RN(f.h.n, f.h.sp)
              viaType == f.h.sh = "tref"
              stored == IF viaType /\ f.rt >= 0 THEN f.rt ELSE f.res
              r == IF stored >= 0 THEN stored ELSE gen[n] IN
          /\ funcs' = [funcs EXCEPT ![i].res = IF viaType /\ f.rt >= 0 THEN f.res ELSE r,
                                    ![i].rt = IF viaType THEN r ELSE f.rt,
                                    ![i].cl = IF stored >= 0 THEN f.cl ELSE FALSE]
          /\ last' = Rec("call", f.dn, f.conf,
                         IF r < 0 THEN Unbound(f.h.sh) ELSE Ans("none", Accepted(Resolved(f.h.sh, n, r), f.conf)),
                         FreshCheck(f.h, f.conf), r = gen[n] \/ f.cl, stored >= 0, FALSE, FALSE)
  /\ UNCHANGED <<gen, tester, raiser, dedup, reprc, sane, expr, decreg>> /\ WrapUnch

(* ------------------------------------------------ wrappers and id-keyed tables *)
KeyAddrs == {e.a1 : e \in subt \cup eqt} \cup {e.a2 : e \in subt \cup eqt}
FreeKeyed == KeyAddrs \ {w.a : w \in wobj}
\* allocation choices for up to four new wrappers: 0 = a fresh address, else a free address occurring in a key
Choices == {c \in [1..4 -> FreeKeyed \cup {0}] : \A i, j \in 1..4 : i # j /\ c[i] # 0 => c[i] # c[j]}

M0 == [wo |-> wobj, wr |-> wrap, na |-> nexta, nu |-> nextu, ok |-> TRUE]
WOf(m, u) == CHOOSE w \in m.wo : w.u = u
\* _TypeHintMetaclass.__call__ for one hint (children apart): cached wrapper, or a new object at address c
Acq(m, h, c) ==
  LET hit == {e \in m.wr : Hashable(h) /\ e.k = HKey(h)} IN
  IF hit # {} THEN [m |-> [m EXCEPT !.ok = m.ok /\ c = 0], u |-> (CHOOSE e \in hit : TRUE).u]
  ELSE LET w == [u |-> m.nu, a |-> IF c = 0 THEN m.na ELSE c, h |-> h, c |-> 0] IN
       [m |-> [wo |-> m.wo \cup {w},
               wr |-> IF Hashable(h) THEN m.wr \cup {[k |-> HKey(h), u |-> m.nu]} ELSE m.wr,
               na |-> IF c = 0 THEN m.na + 1 ELSE m.na, nu |-> m.nu + 1,
               ok |-> m.ok /\ (c = 0 \/ c \notin {x.a : x \in m.wo})],
        u |-> m.nu]
ChildHint(h) == [sh |-> "cls", n |-> h.n, sp |-> 0, g |-> h.g]
SetChild(m, u, cu) == [m EXCEPT !.wo = {IF w.u = u THEN [w EXCEPT !.c = cu] ELSE w : w \in m.wo}]
\* TypeHint(hint): AnnotatedTypeHint.__init__ wraps its metahint at once (c2); list[...] children are lazy
MkWrapper(m, h, c1, c2) ==
  LET p == Acq(m, h, c1) IN
  IF h.sh = "ann" /\ WOf(p.m, p.u).c = 0
  THEN LET ch == Acq(p.m, ChildHint(h), c2) IN [m |-> SetChild(ch.m, p.u, ch.u), u |-> p.u]
  ELSE [m |-> [p.m EXCEPT !.ok = p.m.ok /\ c2 = 0], u |-> p.u]

\* method_cached_arg_by_id: probe by the address pair
Entry(w1, w2, v) == [a1 |-> w1.a, a2 |-> w2.a, u1 |-> w1.u, u2 |-> w2.u, v |-> v]
CLook(t, w1, w2, pure) ==
  LET p == {e \in t : e.a1 = w1.a /\ e.a2 = w2.a}
      mine(e) == e.u1 = w1.u /\ e.u2 = w2.u IN
  IF p # {} /\ (\A e \in p : "id_unvalidated" \in Legacy \/ mine(e))
  THEN LET e0 == CHOOSE x \in p : TRUE IN [v |-> e0.v, t |-> t, hit |-> TRUE, stale |-> ~mine(e0)]
  ELSE [v |-> pure, t |-> (t \ p) \cup {Entry(w1, w2, pure)}, hit |-> FALSE, stale |-> FALSE]

\* wa.is_subhint(wb) on the shapes of SubPairsS; c3, c4 place lazily created children
SubEval(m, t, ua, ub, c3, c4) ==
  LET wa == WOf(m, ua)  wb == WOf(m, ub)
      top == {e \in t : e.a1 = wa.a /\ e.a2 = wb.a}
      tophit == top # {} /\ (\A e \in top : "id_unvalidated" \in Legacy \/ (e.u1 = wa.u /\ e.u2 = wb.u)) IN
  IF tophit
  THEN LET e0 == CHOOSE x \in top : TRUE IN
       [v |-> e0.v, t |-> t, m |-> [m EXCEPT !.ok = m.ok /\ c3 = 0 /\ c4 = 0], hit |-> TRUE,
        stale |-> e0.u1 # wa.u \/ e0.u2 # wb.u]
  ELSE IF wa.h.sh = "ann"
  THEN \* AnnotatedTypeHint._is_subhint_branch: self._metahint_wrapper.is_subhint(branch)
       LET ch == WOf(m, wa.c)
           r == CLook(t \ top, ch, wb, LeafSub(ch.h, wb.h)) IN
       [v |-> r.v, t |-> r.t \cup {Entry(wa, wb, r.v)}, m |-> [m EXCEPT !.ok = m.ok /\ c3 = 0 /\ c4 = 0],
        hit |-> FALSE, stale |-> r.stale]
  ELSE IF wa.h.sh = "list" /\ wb.h.sh = "list"
  THEN \* TypeHint._is_subhint_branch: children of the branch first (_is_args_ignorable), then ours, pairwise is_subhint
       LET cb == IF wb.c # 0 THEN [m |-> [m EXCEPT !.ok = m.ok /\ c3 = 0], u |-> wb.c] ELSE Acq(m, ChildHint(wb.h), c3)
           m1 == SetChild(cb.m, ub, cb.u)
           wa1 == WOf(m1, ua)
           ca == IF wa1.c # 0 THEN [m |-> [m1 EXCEPT !.ok = m1.ok /\ c4 = 0], u |-> wa1.c] ELSE Acq(m1, ChildHint(wa.h), c4)
           m2 == SetChild(ca.m, ua, ca.u)
           x == WOf(m2, ca.u)  y == WOf(m2, cb.u)
           r == CLook(t \ top, x, y, LeafSub(x.h, y.h)) IN
       [v |-> r.v, t |-> r.t \cup {Entry(wa, wb, r.v)}, m |-> m2, hit |-> FALSE, stale |-> r.stale]
  ELSE LET v == LeafSub(wa.h, wb.h) /\ wa.h.sh # "list" IN
       [v |-> v, t |-> (t \ top) \cup {Entry(wa, wb, v)}, m |-> [m EXCEPT !.ok = m.ok /\ c3 = 0 /\ c4 = 0],
        hit |-> FALSE, stale |-> FALSE]

\* garbage collection: wrap is strong, the user holds `held`, a live parent holds its child
Live(wr, hd, wo) == LET roots == {e.u : e \in wr} \cup hd IN roots \cup {w.c : w \in {x \in wo : x.u \in roots}}
Collect(wr, hd, wo) == {w \in wo : w.u \in Live(wr, hd, wo)}
Commit(m) == /\ wrap' = m.wr /\ wobj' = Collect(m.wr, held', m.wo) /\ nexta' = m.na /\ nextu' = m.nu
PipeUnch == UNCHANGED <<gen, tester, raiser, dedup, reprc, sane, expr, funcs, decreg>>
NonHint(dn) == HD[dn].sh \in {"ref", "bad"}

\* is_subhint(a, b) == TypeHint(a).is_subhint(TypeHint(b)); temporaries die at the end of the call
Subhint(da, db) ==
  /\ Step /\ CanBuild(da) /\ CanBuild(db) /\ PipeUnch /\ UNCHANGED held
  /\ IF NonHint(da) \/ NonHint(db)
     THEN /\ last' = Rec("subhint", da, db, Ans("doornonpep", {}), FreshSub(HintOf(da), HintOf(db)), TRUE, FALSE, FALSE, FALSE)
          /\ UNCHANGED <<wrap, wobj, subt, eqt, nexta, nextu>>
     ELSE \E c \in Choices :
          LET a == HintOf(da)  b == HintOf(db)
              pa == TLCEval(MkWrapper(M0, a, c[1], IF a.sh = "ann" THEN c[2] ELSE 0))
              pb == TLCEval(MkWrapper(pa.m, b, IF a.sh = "ann" THEN c[3] ELSE c[2], 0))
              r == TLCEval(SubEval(pb.m, subt, pa.u, pb.u, IF a.sh = "ann" THEN 0 ELSE c[3], c[4])) IN
          /\ r.m.ok /\ (a.sh = "ann" => c[4] = 0)
          /\ subt' = r.t /\ UNCHANGED eqt /\ Commit(r.m)
          /\ last' = Rec("subhint", da, db, Bool(r.v), FreshSub(a, b), TRUE, r.hit, r.stale, FALSE)

\* TypeHint(a) == TypeHint(b) on class-like hints: __eq__ is id-keyed too and calls is_subhint both ways
ThEq(da, db) ==
  /\ Step /\ CanBuild(da) /\ CanBuild(db) /\ PipeUnch /\ UNCHANGED held
  /\ \E c \in Choices :
     LET a == HintOf(da)  b == HintOf(db)
         pa == TLCEval(MkWrapper(M0, a, c[1], 0))
         pb == TLCEval(MkWrapper(pa.m, b, c[2], 0))
         wa == WOf(pb.m, pa.u)  wb == WOf(pb.m, pb.u)
         top == {e \in eqt : e.a1 = wa.a /\ e.a2 = wb.a}
         tophit == top # {} /\ (\A e \in top : "id_unvalidated" \in Legacy \/ (e.u1 = wa.u /\ e.u2 = wb.u)) IN
     /\ pb.m.ok /\ c[3] = 0 /\ c[4] = 0 /\ Commit(pb.m)
     /\ IF tophit
        THEN LET e0 == CHOOSE x \in top : TRUE IN
             /\ UNCHANGED <<subt, eqt>>
             /\ last' = Rec("theq", da, db, Bool(e0.v), FreshEq(a, b), TRUE, TRUE, e0.u1 # wa.u \/ e0.u2 # wb.u, FALSE)
        ELSE LET s1 == CLook(subt, wa, wb, LeafSub(a, b))
                 s2 == IF s1.v THEN CLook(s1.t, wb, wa, LeafSub(b, a)) ELSE [v |-> FALSE, t |-> s1.t, hit |-> FALSE, stale |-> FALSE]
                 v == s1.v /\ s2.v IN
             /\ subt' = s2.t /\ eqt' = (eqt \ top) \cup {Entry(wa, wb, v)}
             /\ last' = Rec("theq", da, db, Bool(v), FreshEq(a, b), TRUE, s1.hit \/ s2.hit, s1.stale \/ s2.stale, FALSE)

\* w = TypeHint(a): the user keeps the wrapper (NewHint) ...
Hold(da) ==
  /\ Step /\ CanBuild(da) /\ held = {} /\ PipeUnch /\ UNCHANGED <<subt, eqt>>
  /\ \E c \in Choices :
     LET p == TLCEval(MkWrapper(M0, HintOf(da), c[1], c[2])) IN
     /\ p.m.ok /\ c[3] = 0 /\ c[4] = 0
     /\ held' = {p.u} /\ Commit(p.m)
     /\ last' = Rec("hold", da, "-", NoAns, NoAns, FALSE, FALSE, FALSE, FALSE)
\* ... del w: the last user reference goes (DropHint); the object survives only if wrap holds it
Drop ==
  /\ Step /\ held # {} /\ PipeUnch /\ UNCHANGED <<subt, eqt, wrap, nexta, nextu>>
  /\ held' = {} /\ wobj' = Collect(wrap, {}, wobj)
  /\ last' = Rec("drop", "-", "-", NoAns, NoAns, FALSE, FALSE, FALSE, FALSE)
\* w <= TypeHint(b) with the held wrapper
LeHeld(db) ==
  /\ Step /\ held # {} /\ CanBuild(db) /\ PipeUnch /\ UNCHANGED held
  /\ \E c \in Choices :
     LET ua == CHOOSE u \in held : TRUE
         b == HintOf(db)
         pb == TLCEval(MkWrapper(M0, b, c[1], 0))
         r == TLCEval(SubEval(pb.m, subt, ua, pb.u, 0, 0)) IN
     /\ r.m.ok /\ c[2] = 0 /\ c[3] = 0 /\ c[4] = 0
     /\ subt' = r.t /\ UNCHANGED eqt /\ Commit(r.m)
     /\ last' = Rec("leheld", "-", db, Bool(r.v), FreshSub(WOf(M0, ua).h, b), TRUE, r.hit, r.stale, FALSE)

(* ------------------------------------------------ the heap changes under the tables *)
\* clear_caches() as run by _uncache_beartype_if_type_redefined(who)
ClearEffect(who) ==
  /\ tester' = {} /\ raiser' = {} /\ expr' = {} /\ sane' = {} /\ wrap' = {}
  /\ dedup' = IF "clear_forgets_dedup" \in Legacy THEN dedup ELSE {}
  /\ funcs' = [i \in 1..Len(funcs) |->
                 IF funcs[i].res = -2 THEN funcs[i]
                 ELSE [funcs[i] EXCEPT !.res = -1, !.cl = funcs[i].res >= 0 \/ funcs[i].rt >= 0 \/ funcs[i].cl,
                                       !.rt = IF "clear_forgets_reftype" \in Legacy THEN @ ELSE -1]]
  /\ wobj' = Collect({}, held, wobj)
  /\ decreg' = IF "registry_wiped" \in Legacy THEN {who} ELSE decreg \cup {who}
  /\ UNCHANGED <<reprc, subt, eqt, held, nexta, nextu>>        \* callable_cached closures and id-keyed tables survive

\* class n: ... again (or for the first time: U).  A decorated class runs clear_caches() when decortype.py remembers
\* having decorated a class of that name.
Redefine(n) ==
  /\ Step /\ gen[n] < MaxGen[n]
  /\ gen' = [gen EXCEPT ![n] = @ + 1]
  /\ IF n \in Decorated /\ n \in decreg THEN ClearEffect(n)
     ELSE /\ UNCHANGED <<tester, raiser, dedup, reprc, sane, expr, wrap, wobj, held, subt, eqt, funcs, nexta, nextu>>
          /\ decreg' = IF n \in Decorated THEN decreg \cup {n} ELSE decreg
  /\ last' = Rec("redefine", n, "-", NoAns, NoAns, FALSE, FALSE, FALSE, FALSE)

\* clear_caches() by another route: some unrelated decorated class K is redefined (the driver executes the definition
\* twice, so that K is certainly remembered the second time)
ClearCaches ==
  /\ ClearS /\ Step /\ ClearEffect("K") /\ UNCHANGED gen
  /\ last' = Rec("clear", "-", "-", NoAns, NoAns, FALSE, FALSE, FALSE, FALSE)

Init ==
  /\ gen = InitGen /\ tester = {} /\ raiser = {} /\ dedup = {} /\ reprc = {} /\ sane = {} /\ expr = {}
  /\ wrap = {} /\ wobj = {} /\ held = {} /\ subt = {} /\ eqt = {} /\ funcs = <<>> /\ decreg = {"D", "K"}
  /\ nexta = 1 /\ nextu = 1 /\ nops = 0
  /\ last = Rec("init", "-", "-", NoAns, NoAns, FALSE, FALSE, FALSE, FALSE)

Next ==
  \/ \E dn \in BearHDs, c \in ConfsS : Bearable(dn, c) \/ Die(dn, c)
  \/ \E dn \in DecoHDs, c \in ConfsS : Decorate(dn, c)
  \/ \E i \in 1..MaxFuncs : Call(i)
  \/ \E p \in SubPairsS : Subhint(p[1], p[2])
  \/ \E p \in EqPairsS : ThEq(p[1], p[2])
  \/ \E dn \in HoldHDs : Hold(dn)
  \/ Drop
  \/ \E dn \in LeHeldHDs : LeHeld(dn)
  \/ \E n \in RedefS : Redefine(n)
  \/ ClearCaches
Spec == Init /\ [][Next]_vars

(* ---------------------------------------------------------------- properties *)
\* every answer is the answer of the same query on the current heap with empty tables
ReturnFresh == last.judged => last.ret = last.fresh
\* a query does not fail unless it fails on the current heap (a failure whose reason is gone is not remembered)
NoStickyFailure == last.judged /\ last.ret.exc # "none" => last.fresh.exc = last.ret.exc
\* a cached answer is the answer a first-time computation gives
HitIsFirstTime == last.judged /\ last.hit => last.ret = last.fresh
\* named deviations of the 0.23.0 disciplines: absent from the intended design
NoStaleIdHit == ~last.stale
NoForeignDedup == ~last.swap

\* structural sanity of the model itself
TypeOK ==
  /\ \A w1, w2 \in wobj : w1.a = w2.a => w1 = w2                     \* live objects have distinct addresses
  /\ \A e \in wrap : \E w \in wobj : w.u = e.u                         \* a strong table keeps its values alive
  /\ held \subseteq {w.u : w \in wobj}
  /\ \A t \in {subt, eqt} : \A e1, e2 \in t : e1.a1 = e2.a1 /\ e1.a2 = e2.a2 => e1 = e2    \* dict: one value per key
=============================================================================
