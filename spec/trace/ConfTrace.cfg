SPECIFICATION TSpec
CONSTANTS
  KeyMode = "typed"
  VaryOpts = {}
  MaxCalls = 1000000
CONSTRAINT Reached
INVARIANT TUniform
INVARIANT NoLeak
POSTCONDITION Accepted
CHECK_DEADLOCK FALSE
