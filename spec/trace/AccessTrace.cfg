SPECIFICATION TSpec
CONSTANTS
  Mut = "none"
CONSTRAINT Reached
POSTCONDITION Accepted
CHECK_DEADLOCK FALSE
