---------------------------- MODULE OutcomesTrace ----------------------------
(* Binding B3 for C11.  The recorded events of all cases (ndjson, TRACE_FILE) are read; *)
(* for every case (events between one Begin and the next)                               *)
(*                                                                                      *)
(*  (J) every Return is JUDGED: the observable record is folded over the case's events  *)
(*      with the Obs* operators of Outcomes.tla and Judge -- the declarative property,  *)
(*      class membership over the forest extracted from the working tree -- is          *)
(*      evaluated on each outcome.  One row per breaking outcome and one summary row per*)
(*      case are printed; the driver reports exactly these rows.                        *)
(*  (F) TLC tries to FOLLOW the events with the implementation-shaped automaton of      *)
(*      Outcomes.tla in its intended design (Legacy = {}): internal steps are free,     *)
(*      every step that changes the observable record must equal the next logged event. *)
(*      A case whose last event is consumed this way prints a "followed" row.           *)
(*                                                                                      *)
(* A case may always be abandoned (TBegin's second disjunct jumps to the next case), so *)
(* the whole log is always consumed and every case is judged even when it cannot be     *)
(* followed.  MRO lists logged by the driver are cross-checked against the forest.      *)
EXTENDS Outcomes, TLCExt

Log == ndJsonDeserialize(IOEnv.TRACE_FILE)

VARIABLE l          \* next event to consume
tvars == << vars, l >>

RestCase == [ entry |-> "none", defect |-> NoDefect, pos |-> "root", rp |-> "none", nth |-> 1, slot |-> "param",
              rept |-> 1 ]
AtRest   == c = RestCase /\ pc = "rest" /\ obs = ObsInit /\ flight = NoExc /\ reach = 0 /\ calls = 0
            /\ refc = "none"

TInit == l = 1 /\ AtRest

CaseOf(e) == [ entry |-> e.entry, defect |-> << e.defect, e.var >>, pos |-> e.pos, rp |-> e.rp,
               nth |-> e.nth, slot |-> e.slot, rept |-> e.rept ]

OutOf(e) == [ kind |-> e.kind, cls |-> e.cls, uid |-> e.uid,
              intact |-> (e.tb_anchor /\ e.args_same /\ e.chain_same) ]

MroOk(e) == (e.cls \in Classes) =>
              ({ e.mro[k] : k \in DOMAIN e.mro } \cap Classes) = AncStar[e.cls]

(* (J) fold the observable record over events i..last; collect verdict rows *)
RECURSIVE JudgeFrom(_, _, _, _)
JudgeFrom(i, last, o, id) ==
  IF i > last THEN << >>
  ELSE LET e == Log[i] IN
    CASE e.ev = "Enter"     -> JudgeFrom(i + 1, last, ObsEnter(o, e.phase), id)
      [] e.ev = "UserRaise" -> JudgeFrom(i + 1, last, ObsUserRaise(o, e.uid, e.on_pith), id)
      [] e.ev = "Warn"      -> JudgeFrom(i + 1, last, ObsWarn(o, e.cls), id)
      [] e.ev = "Return"    ->
           LET o2 == ObsReturn(o, OutOf(e))
               v  == o2.verdict \cup Clause("forest_mismatch", ~MroOk(e))
               row == [ id |-> id, at |-> i, phase |-> o.phase, kind |-> e.kind, cls |-> e.cls,
                        clauses |-> v, warns |-> o.warns ]
           IN  << row >> \o JudgeFrom(i + 1, last, o2, id)
      [] OTHER              -> JudgeFrom(i + 1, last, o, id)

PrintRows(rows) == \A k \in DOMAIN rows :
                     (rows[k].clauses # {}) => PrintT(ToJson([ judged |-> rows[k] ]))

TBegin ==
  /\ l <= Len(Log) /\ Log[l].ev = "Begin" /\ AtRest
  /\ LET e == Log[l]
         rows == JudgeFrom(l + 1, e.next - 1, ObsInit, e.id)
     IN /\ PrintRows(rows)
        /\ PrintT(ToJson([ summary |-> [ id |-> e.id, returns |-> Len(rows),
                                         bad |-> Cardinality({ k \in DOMAIN rows : rows[k].clauses # {} }) ] ]))
        /\ \/ /\ c' = CaseOf(e) /\ pc' = "idle" /\ l' = l + 1                 \* try to follow
              /\ UNCHANGED << obs, flight, reach, calls, refc >>
           \/ /\ l' = e.next /\ UNCHANGED vars                                   \* abandon

Matches(e, o, o2) ==
  CASE e.ev = "Enter"     -> o.phase = "idle" /\ o2.phase = e.phase
    [] e.ev = "UserRaise" -> o2.nraise = o.nraise + 1 /\ o2.phase = o.phase
    [] e.ev = "Warn"      -> o2.nwarn = o.nwarn + 1 /\ o2.warns = o.warns \cup { e.cls }
    [] e.ev = "Return"    -> /\ o.phase # "idle" /\ o2.phase = "idle"
                             /\ o2.out.kind = e.kind /\ o2.out.cls = e.cls /\ o2.out.uid = e.uid
    [] OTHER              -> FALSE

TStep ==            \* one step of the intended automaton, pinned to the log when observable
  /\ pc # "rest" /\ Next
  \* look-ahead (pruning only): an exception put in flight must be the one the log shows next
  /\ (flight' # flight /\ flight'.kind = "exc" /\ l <= Len(Log)) => flight'.cls = Log[l].ret_cls
  /\ IF obs' = obs THEN l' = l
     ELSE l <= Len(Log) /\ Matches(Log[l], obs, obs') /\ l' = l + 1

TEnd ==             \* the case's events are all consumed and the API is not entered
  /\ pc # "rest" /\ obs.phase = "idle" /\ flight = NoExc
  /\ (IF l = Len(Log) + 1 THEN TRUE ELSE Log[l].ev = "Begin")
  /\ PrintT(ToJson([ followed |-> Log[l - 1].id ]))
  /\ c' = RestCase /\ pc' = "rest" /\ obs' = ObsInit /\ flight' = NoExc /\ reach' = 0 /\ calls' = 0
  /\ refc' = "none" /\ l' = l

TNext == TBegin \/ TStep \/ TEnd
TSpec == TInit /\ [][TNext]_tvars

Reached  == TLCSet(1, IF l > TLCGet(1) THEN l ELSE TLCGet(1))
Accepted == IF TLCGet(1) = Len(Log) + 1 THEN TRUE
            ELSE PrintT(ToJson([ rejected_at |-> TLCGet(1) ])) /\ FALSE
ASSUME TLCSet(1, 0)
=============================================================================
