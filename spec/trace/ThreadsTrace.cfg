SPECIFICATION TSpec
CONSTANTS
  NThreads = 3
  ProgLen = 1
  OpSel = {}
  Mutant = "none"
  Legacy = {}
  WarmPool = FALSE
  LazyProg = FALSE
CONSTRAINT Reached
INVARIANT TNoBad
INVARIANT TLockOrder
POSTCONDITION Accepted
CHECK_DEADLOCK FALSE
