---------------------------- MODULE AccessTrace ----------------------------
(* Binding B3 for C09 / C10: every recorded type-check (one event per check: the       *)
(* operations the spy containers logged, aggregated) must be a step the specification   *)
(* allows:                                                                              *)
(*   - item reads, len() calls and iterators created stay within the bounds that        *)
(*     Semantics.tla derives from the hint alone (ReadBound / LenBound), doubled for     *)
(*     entry points that also build the explanation of a rejection;                     *)
(*   - checks of the same group (same hint, same subject shape, same entry point, same  *)
(*     sampled position) at different container sizes perform identical work             *)
(*     (size independence is a property of the *history*: the first event of a group    *)
(*     fixes the counts, later ones must repeat them);                                  *)
(*   - no forbidden operation (mutators, defaultdict factory, next/send/throw/close on  *)
(*     the subject, iter() of a non-collection), no observable change of the subject;   *)
(*   - repr() of containers only on the rejecting path, a bounded number of times.      *)
EXTENDS Semantics, Json, IOUtils, TLCExt

Log == ndJsonDeserialize(IOEnv.TRACE_FILE)

VARIABLES l,        \* next event
          first     \* group id -> counts of the first event of the group (as a set of <<grp, counts>>)
tvars == <<l, first>>

Counts(e) == <<e.rd, e.ln, e.it, e.repr, e.other>>
\* entry points that explain a rejection run the check and then the cause finder
Passes(e) == IF e.path = "reject" /\ e.entry # "is" THEN 2 ELSE 1
ReprBound(e) == IF e.path = "reject" /\ e.entry # "is" THEN 2 * (1 + Nodes(e.h)) ELSE 0

\* The explanation of a rejection may re-read the item it blames once per hint node (e.g. ItemsView[k, v] is
\* checked as a collection of 2-tuples *and* by class, so a non-view collection is sampled before the class
\* test rejects it, and the cause finder revisits the blamed tuple): a hint-only constant, never the size.
Slack(e) == IF e.path = "reject" /\ e.entry # "is" THEN Nodes(e.h) ELSE 0
Allowed(e) ==
  /\ e.bad = 0                                        \* C10: no forbidden operation
  /\ e.other = 0                                      \* C10: no user code outside the read-only protocol the property
                                                      \*      lists (__bool__, __contains__, __hash__, ... of the subject)
  /\ e.mutated = FALSE                                \* C10: subject as it was found
  /\ e.rd <= Passes(e) * (ReadBound(e.h) + Slack(e))  \* C09: items read
  /\ e.ln <= Passes(e) * LenBound(e.h) + 2
  /\ e.it <= Passes(e) * (ReadBound(e.h) + Slack(e))
  /\ e.repr <= ReprBound(e)
  /\ e.maxobj <= Passes(e) * Nodes(e.h)               \* reads of any single container object

TInit == l = 1 /\ first = {}
TCheck ==
  /\ l <= Len(Log) /\ Log[l].ev = "Check"
  /\ LET e == Log[l] IN
       /\ Allowed(e)
       /\ IF e.grp = 0 THEN UNCHANGED first
          ELSE IF \E f \in first : f[1] = e.grp
               THEN /\ \E f \in first : f[1] = e.grp /\ f[2] = Counts(e)     \* same work at every size
                    /\ UNCHANGED first
               ELSE first' = first \cup {<<e.grp, Counts(e)>>}
  /\ l' = l + 1
TNext == TCheck
TSpec == TInit /\ [][TNext]_tvars

Reached == TLCSet(1, IF l > TLCGet(1) THEN l ELSE TLCGet(1))
Accepted == IF TLCGet(1) = Len(Log) + 1 THEN TRUE
            ELSE PrintT(ToJson([rejected_at |-> TLCGet(1)])) /\ FALSE
ASSUME TLCSet(1, 0)
=============================================================================
