---------------------------- MODULE ThreadsTrace ----------------------------
(* Binding B3 for C15: logs of REAL executions (2-3 scheduled threads running public  *)
(* API operations of beartype under a deterministic scheduler that pre-empts at every *)
(* line) are validated against the demands of Threads.tla:                            *)
(*   - mutual exclusion of the critical sections (cooperative lock events),           *)
(*   - pool discipline (an item is acquired by at most one thread until released,     *)
(*     only its holder releases it),                                                  *)
(*   - singleton identity (equal keys <=> one object id, over all threads),            *)
(*   - linearisability: a silent Lin(th) step between the invocation and the response *)
(*     of every order-dependent operation applies Threads!SeqApply to the abstract    *)
(*     registry; the logged response must be the one SeqApply computed,               *)
(*   - acyclic lock order.                                                            *)
(* Several executions are batched per file, separated by Reset events.                *)
EXTENDS Threads, Json, IOUtils, TLCExt

Log == ndJsonDeserialize(IOEnv.TRACE_FILE)
MaxLock == 16
MaxTh == 3

VARIABLES l,        \* next event to consume
          owner,    \* lock id -> owning thread (0 = free)
          cnt,      \* lock id -> re-entrancy count
          ord,      \* observed nesting pairs <<outer, inner>>
          held,     \* set of <<item, thread>>
          pend,     \* thread -> [st, op, r]: idle / inv / lin
          rg,       \* abstract registry (Threads!SeqApply)
          ids,      \* singleton table: set of <<kind, canonical key, object id>>
          bad       \* "none" or the first clause a deterministic check failed on

tv == <<l, owner, cnt, ord, held, pend, rg, ids, bad>>
Idle == [st |-> "idle", op |-> "", r |-> R("", 0, "")]

Frozen ==   \* the variables of the design model are not used here
  /\ prog = 0 /\ ip = 0 /\ stk = 0 /\ reg = 0 /\ res = 0 /\ last = 0 /\ lockOwner = 0 /\ lockCnt = 0 /\ order = 0
  /\ pool = 0 /\ holds = 0 /\ scratch = 0 /\ nextItem = 0 /\ confMemo = 0 /\ confInit = 0 /\ nextConf = 0
  /\ thCache = 0 /\ nextW = 0 /\ exprMemo = 0 /\ testMemo = 0 /\ decorMemo = 0 /\ top = 0 /\ topGen = 0 /\ kids = 0
  /\ wstate = 0 /\ fault = 0

Fresh ==
  /\ owner = [x \in 1..MaxLock |-> 0] /\ cnt = [x \in 1..MaxLock |-> 0] /\ ord = {}
  /\ held = {} /\ pend = [t \in 1..MaxTh |-> Idle] /\ rg = [p \in Leaves |-> "none"] /\ ids = {}
FreshNext ==
  /\ owner' = [x \in 1..MaxLock |-> 0] /\ cnt' = [x \in 1..MaxLock |-> 0] /\ ord' = {}
  /\ held' = {} /\ pend' = [t \in 1..MaxTh |-> Idle] /\ rg' = [p \in Leaves |-> "none"] /\ ids' = {}

TInit == Frozen /\ Fresh /\ l = 1 /\ bad = "none"

Ev(name) == l <= Len(Log) /\ Log[l].ev = name /\ bad = "none"
Flag(why) == bad' = why
Adv == l' = l + 1

TReset == Ev("Reset") /\ FreshNext /\ Adv /\ UNCHANGED bad

TAcq ==
  /\ Ev("Acq")
  /\ LET e == Log[l]  x == e.lock  t == e.th IN
       /\ Flag(IF owner[x] = 0 \/ (e.re = 1 /\ owner[x] = t) THEN "none" ELSE "mutual_exclusion")
       /\ owner' = [owner EXCEPT ![x] = t] /\ cnt' = [cnt EXCEPT ![x] = @ + 1]
       /\ ord' = ord \cup {<<y, x>> : y \in {y \in 1..MaxLock : owner[y] = t /\ y # x}}
  /\ Adv /\ UNCHANGED <<held, pend, rg, ids>>

TRel ==
  /\ Ev("Rel")
  /\ LET e == Log[l]  x == e.lock  t == e.th IN
       /\ Flag(IF owner[x] = t THEN "none" ELSE "release_by_non_owner")
       /\ cnt' = [cnt EXCEPT ![x] = @ - 1]
       /\ owner' = [owner EXCEPT ![x] = IF cnt[x] = 1 THEN 0 ELSE @]
  /\ Adv /\ UNCHANGED <<ord, held, pend, rg, ids>>

TPAcq ==
  /\ Ev("PAcq")
  /\ LET e == Log[l] IN
       /\ Flag(IF \E h \in held : h[1] = e.item THEN "item_held_by_two_threads" ELSE "none")
       /\ held' = held \cup {<<e.item, e.th>>}
  /\ Adv /\ UNCHANGED <<owner, cnt, ord, pend, rg, ids>>

TPRel ==
  /\ Ev("PRel")
  /\ LET e == Log[l] IN
       /\ Flag(IF <<e.item, e.th>> \in held THEN "none" ELSE "release_of_item_not_held")
       /\ held' = held \ {<<e.item, e.th>>}
  /\ Adv /\ UNCHANGED <<owner, cnt, ord, pend, rg, ids>>

TInv ==
  /\ Ev("Inv")
  /\ LET e == Log[l] IN
       /\ Flag(IF pend[e.th].st = "idle" THEN "none" ELSE "overlapping_invocations_of_one_thread")
       /\ pend' = [pend EXCEPT ![e.th] = [st |-> "inv", op |-> e.op, r |-> R("", 0, "")]]
  /\ Adv /\ UNCHANGED <<owner, cnt, ord, held, rg, ids>>

OrderDep(op) == OpDef(op).k \in {"Hook", "Look"}

\* the silent linearisation point of an order-dependent operation
TLin(t) ==
  /\ bad = "none" /\ pend[t].st = "inv" /\ OrderDep(pend[t].op)
  /\ LET a == SeqApply(rg, OpDef(pend[t].op)) IN
       /\ pend' = [pend EXCEPT ![t] = [st |-> "lin", op |-> pend[t].op, r |-> a.r]]
       /\ rg' = a.rg
  /\ UNCHANGED <<l, owner, cnt, ord, held, ids, bad>>

KindOf(op) == IF OpDef(op).k = "Conf" THEN "conf" ELSE "th"

TRes ==
  /\ Ev("Res")
  /\ LET e == Log[l]  t == e.th  op == pend[t].op IN
       /\ pend[t].st # "idle" /\ e.op = op
       /\ IF OrderDep(op)
          THEN /\ pend[t].st = "lin"                          \* guard: prunes wrong linearisations
               /\ e.k = pend[t].r.k /\ e.s = pend[t].r.s
               /\ UNCHANGED <<ids, bad>>
          ELSE LET want == SeqApply(rg, OpDef(op)).r IN
               IF want.k \in {"conf", "th"}
               THEN /\ Flag(IF e.k # want.k THEN "wrong_answer"
                            ELSE IF want.k = "conf" /\ e.s # "ok" THEN "half_initialised_object"
                            ELSE IF \E x \in ids : x[1] = want.k /\ ((x[2] = want.s) # (x[3] = e.n))
                                 THEN "singleton_identity" ELSE "none")
                    /\ ids' = ids \cup {<<want.k, want.s, e.n>>}
               ELSE /\ Flag(IF e.k = want.k /\ e.s = want.s THEN "none" ELSE "wrong_answer")
                    /\ UNCHANGED ids
       /\ pend' = [pend EXCEPT ![t] = Idle]
  /\ Adv /\ UNCHANGED <<owner, cnt, ord, held, rg>>

TNext == (TReset \/ TAcq \/ TRel \/ TPAcq \/ TPRel \/ TInv \/ TRes \/ \E t \in 1..MaxTh : TLin(t)) /\ UNCHANGED vars
TSpec == TInit /\ [][TNext]_<<tv, vars>>

\* ---------------------------------------------------------------- properties of the recorded execution
TNoBad == bad = "none"
RECURSIVE TReach(_, _)
TReach(S, n) == IF n = 0 THEN S ELSE TReach(S \cup {e[2] : e \in {e \in ord : e[1] \in S}}, n - 1)
TLockOrder == \A x \in {e[1] : e \in ord} : x \notin TReach({e[2] : e \in {e \in ord : e[1] = x}}, Cardinality(ord))

Reached == TLCSet(1, IF l > TLCGet(1) THEN l ELSE TLCGet(1))
Accepted == IF TLCGet(1) = Len(Log) + 1 THEN TRUE
            ELSE PrintT(ToJson([rejected_at |-> TLCGet(1)])) /\ FALSE
ASSUME TLCSet(1, 0)
=============================================================================
