---------------------------- MODULE ConfTrace ----------------------------
(* Binding B3 for C17: a recorded sequence of BeartypeConf calls (several       *)
(* histories, separated by Reset events = fresh interpreters) must be a behaviour of  *)
(* Conf.tla.  Every event carries its full argument vector, so the search is linear.  *)
EXTENDS Conf, Json, IOUtils, TLCExt

Log == ndJsonDeserialize(IOEnv.TRACE_FILE)

VARIABLES l,      \* next event to consume
          hist    \* results since the last Reset: [kind, id, ident]
tvars == <<vars, l, hist>>

InitHist == << [kind |-> "conf", id |-> NewId(DefaultKw), ident |-> 0] >>
TInit == Init /\ l = 1 /\ hist = InitHist

KwOf(e) == [o \in Opts |-> [ty |-> e.kw[o].ty, v |-> e.kw[o].v]]

TReset ==
  /\ l <= Len(Log) /\ Log[l].ev = "Reset"
  /\ memo' = {<<DefaultKw, NewId(DefaultKw)>>} \cup
             (IF KeyMode = "typed" THEN {<<Canon(DefaultKw), Canon(DefaultKw)>>} ELSE {})
  /\ last' = DefaultKw /\ res' = Obj(NewId(DefaultKw), Readback(Canon(DefaultKw))) /\ n' = 0
  /\ hist' = InitHist /\ l' = l + 1

TMake ==
  /\ l <= Len(Log) /\ Log[l].ev = "Make"
  /\ LET e == Log[l] IN
       /\ Make(KwOf(e))
       /\ res'.kind = e.out                                       \* logged outcome
       /\ e.out = "conf" =>
            /\ \A o \in Opts : res'.conf[o] = [ty |-> e.rb[o].ty, v |-> e.rb[o].v]   \* read-back
            /\ { e.listed[k] : k \in DOMAIN e.listed } = Listed(res'.id)           \* repr()
            /\ \A j \in 1..Len(hist) :                            \* identity classes
                 hist[j].kind = "conf" => ((hist[j].ident = e.ident) <=> (hist[j].id = res'.id))
       /\ hist' = Append(hist, [kind |-> res'.kind, id |-> res'.id, ident |-> e.ident])
  /\ l' = l + 1

TNext == TReset \/ TMake
TSpec == TInit /\ [][TNext]_tvars

\* the ideal property, evaluated at every step of the real execution
TUniform == n > 0 => res = Ideal(last)

Reached == TLCSet(1, IF l > TLCGet(1) THEN l ELSE TLCGet(1))
Accepted == IF TLCGet(1) = Len(Log) + 1 THEN TRUE
            ELSE PrintT(ToJson([rejected_at |-> TLCGet(1)])) /\ FALSE
ASSUME TLCSet(1, 0)
=============================================================================
