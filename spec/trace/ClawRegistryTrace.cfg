SPECIFICATION TSpec
CONSTANTS
  Basenames = {"a", "b", "c", "x"}
  MaxDepth = 3
  Names <- TraceNames
  RegPaths <- DefaultRegPaths
  Builtin = {"x"}
  UserConfs <- DefaultConfs
  MaxCtx = 1000
  MaxPkgs = 1
  Legacy = {}
CONSTRAINT Reached
INVARIANT LookupOK
INVARIANT RootOK
INVARIANT HookOK
INVARIANT NodesOK
PROPERTY OutcomeOK
PROPERTY FailedCallAtomic
PROPERTY ReRegisterNoop
PROPERTY ExitRestores
POSTCONDITION Accepted
CHECK_DEADLOCK FALSE
