--------------------------- MODULE GenProtoTrace ---------------------------
(* Binding B3 for C08.  A recorded log                                              *)
(*     Body(code, h)  ( Start(dec)  Op(op, obs)*  End(log) )*   ...                 *)
(* of real generator / asynchronous generator / coroutine objects (one Kind per     *)
(* file) must be a behaviour of *the plain body's* machine of GenProto.tla: the     *)
(* body arrives as flat code (bodies with nested try statements, compiled by the    *)
(* driver; the semantics -- Run, Raise, Op -- is GenProto's).  dec = FALSE: the     *)
(* undecorated object, which must match the machine exactly (this validates the     *)
(* specification's account of CPython).  dec = TRUE: the @beartype-decorated        *)
(* object, which must show Expected(observation of the plain machine); the named    *)
(* deviation F7 is accepted and reported (PrintT) so that validation continues.     *)
EXTENDS GenProto, IOUtils, TLCExt

Log == ndJsonDeserialize(IOEnv.TRACE_FILE)

VARIABLES l,      \* next event to consume
          dec     \* the current object is the decorated one
tvars == <<vars, l, dec>>

Fresh == [g |-> <<G0>>, log |-> <<>>]
NoBody == [pre |-> <<>>, blk |-> <<>>, hc |-> "", hblk |-> <<>>, fin |-> <<>>, post |-> <<>>]
NoProg == [code |-> <<I("R", N, "", 0, 0)>>, h |-> << <<>> >>]

TInit ==
  /\ l = 1 /\ dec = FALSE
  /\ body = NoBody /\ prog = NoProg /\ wr = "none"
  /\ ops = <<>> /\ po = <<>> /\ co = <<>>
  /\ pm = Fresh /\ cm = Fresh
  /\ excl = FALSE /\ post = 0 /\ n = 0 /\ fin = FALSE

Keep == UNCHANGED <<body, cm, co, post, fin, wr>>

InsOf(r) == I(r.op, r.a, r.b, r.t, r.u)
ProgOf(e) == [code |-> [i \in 1..Len(e.code) |-> InsOf(e.code[i])],
              h |-> [i \in 1..Len(e.h) |-> [j \in 1..Len(e.h[i]) |-> H(e.h[i][j].c, e.h[i][j].t)]]]

TBody ==
  /\ l <= Len(Log) /\ Log[l].ev = "Body"
  /\ prog' = ProgOf(Log[l])
  /\ pm' = Fresh /\ excl' = FALSE /\ n' = 0 /\ ops' = <<>> /\ po' = <<>>
  /\ l' = l + 1 /\ UNCHANGED dec /\ Keep

TStart ==
  /\ l <= Len(Log) /\ Log[l].ev = "Start"
  /\ dec' = Log[l].dec
  /\ pm' = Fresh /\ excl' = FALSE /\ n' = 0 /\ ops' = <<>> /\ po' = <<>>
  /\ l' = l + 1 /\ UNCHANGED prog /\ Keep

IsF7(op, o, logged) == op = "tGE" /\ o.k = "stop" /\ logged = "raise|GeneratorExit|"

TOp ==
  /\ l <= Len(Log) /\ Log[l].ev = "Op"
  /\ LET e == Log[l] IN
     IF excl THEN UNCHANGED <<pm, excl, po>>          \* outside the property: anything goes
     ELSE LET pr == Op(<<prog>>, pm, 1, Rq(e.op))
              o == Obs(pr)
              ex == DeliversGE(e.op) /\ pm.g[1].st = "susp" /\ pr.M.g[1].st = "susp"
          IN /\ pm' = pr.M /\ excl' = ex /\ po' = <<o>>
             /\ \/ ex
                \/ ~dec /\ e.obs = ObsStr(o)
                \/ dec /\ e.op = "del"
                \/ dec /\ e.obs = ObsStr(Expected(o))
                \/ dec /\ IsF7(e.op, o, e.obs) /\ PrintT(ToJson([f7_at |-> l]))
  /\ ops' = <<Log[l].op>> /\ n' = n + 1
  /\ l' = l + 1 /\ UNCHANGED <<prog, dec>> /\ Keep

TEnd ==
  /\ l <= Len(Log) /\ Log[l].ev = "End"
  /\ excl \/ pm.log = Log[l].log
  /\ l' = l + 1 /\ UNCHANGED <<prog, dec, pm, excl, n, ops, po>> /\ Keep

TNext == TBody \/ TStart \/ TOp \/ TEnd
TSpec == TInit /\ [][TNext]_tvars

Reached == TLCSet(1, IF l > TLCGet(1) THEN l ELSE TLCGet(1))
Accepted == IF TLCGet(1) = Len(Log) + 1 THEN TRUE
            ELSE PrintT(ToJson([rejected_at |-> TLCGet(1)])) /\ FALSE
ASSUME TLCSet(1, 0)
=============================================================================
