SPECIFICATION TSpec
CONSTANTS
  Legacy = {}
  Emit = FALSE
  Combos = TRUE
  Reps = FALSE
  KindsOn = {}
  MaxCalls = 3
  Abstract = TRUE
CONSTRAINT Reached
POSTCONDITION Accepted
CHECK_DEADLOCK FALSE
