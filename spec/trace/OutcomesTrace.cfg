SPECIFICATION TSpec
CONSTANTS
  Legacy = {}
  Emit = FALSE
  Combos = TRUE
  Reps = FALSE
  KindsOn = {}
  MaxCalls = 5
  Abstract = TRUE
CONSTRAINT Reached
POSTCONDITION Accepted
CHECK_DEADLOCK FALSE
