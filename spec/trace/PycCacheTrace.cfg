\* Trace validation of recorded import runs against PycCache.tla.  The driver generates this
\* file anew for every run (MarkerClasses = the marker function OBSERVED on the tree under test,
\* PatchMode as detected); this copy holds the values of beartype with the configuration-
\* dependent marker (every distinct AST key has its own marker) and the unlocked patch.
SPECIFICATION TSpec
CONSTANTS
  Modules = {"a", "b", "pa", "pb", "f1", "f2", "f3", "f4", "f5", "f6", "f7", "f8"}
  Foreign = {"f1", "f2", "f3", "f4", "f5", "f6", "f7", "f8"}
  Confs = {"default", "vt", "nopep", "ffirst", "flast", "tfirst", "tlbdh"}
  Threads = {1, 2}
  MaxSrc = 1000
  MaxRuns = 1000000
  MarkerMode = "observed"
  MarkerClasses = {{"default", "vt"}, {"nopep"}, {"ffirst"}, {"flast"}, {"tfirst"}, {"tlbdh"}}
  PatchMode = "unlocked"
  Nest = TRUE
CONSTRAINT Reached
POSTCONDITION Accepted
CHECK_DEADLOCK FALSE
