\* Trace validation of recorded import runs against PycCache.tla with the disciplines of
\* beartype 0.23.0 (one marker for all configurations, unlocked patch of the global).
\* The driver generates a variant of this file when it detects other disciplines
\* (MarkerMode "confkey", PatchMode "private") in the implementation under test.
SPECIFICATION TSpec
CONSTANTS
  Modules = {"a", "b", "pa", "pb", "f1", "f2", "f3", "f4", "f5", "f6", "f7", "f8"}
  Foreign = {"f1", "f2", "f3", "f4", "f5", "f6", "f7", "f8"}
  Confs = {"default", "vt", "nopep", "ffirst", "flast", "tfirst"}
  Threads = {1, 2}
  MaxSrc = 1000
  MaxRuns = 1000000
  MarkerMode = "v0230"
  PatchMode = "unlocked"
  Nest = TRUE
CONSTRAINT Reached
POSTCONDITION Accepted
CHECK_DEADLOCK FALSE
