------------------------- MODULE ClawRegistryTrace -------------------------
(* Binding B3 for C06: recorded histories of the real beartype.claw API (several    *)
(* histories per file, each introduced by a Reset event = claw_state.reinit(), the  *)
(* file closed by a final Reset) must be behaviours of ClawRegistry.tla (intended   *)
(* design, Legacy = {}).                                                            *)
(*                                                                                  *)
(* Log[1] is a header  [ev |-> "Header", names |-> <<name, ...>>, confs |-> <<conf record, ...>>]; *)
(* the names of the header are the names of the model (Names <- TraceNames); every  *)
(* other event refers to configurations by their index in that table and carries    *)
(* the real observation after the call:                                             *)
(*   out   "none" or the name of the public exception class raised                  *)
(*   hook  beartype's path hook is in sys.path_hooks                                *)
(*   proj  for every header name (same order) the index of the configuration        *)
(*         get_package_conf_or_none(name) returned (index 1 = None)                 *)
(*   root  index of the configuration returned for a fresh name that no call mentions *)
(*   nr    position in the log of the Reset that ends this history                  *)
(* An event that the specification cannot explain does not stop the run: TSkip      *)
(* (always possible, prints the position it gives up at) abandons the rest of the   *)
(* history; TReset prints whether the history before it was matched completely.     *)
(* One TLC run therefore names the first unexplained event of every rejected        *)
(* history: the largest position printed for it.  The ideal invariants and action   *)
(* properties of ClawRegistry are evaluated at every step of the matched prefixes.  *)
EXTENDS ClawRegistry, Json, IOUtils, TLCExt

Log == ndJsonDeserialize(IOEnv.TRACE_FILE)

VARIABLES l,      \* next event to consume
          tid,    \* history being validated
          okrun   \* no event of this history was skipped so far
tvars == <<vars, l, tid, okrun>>

ToSet(s) == { s[i] : i \in DOMAIN s }
ConfOf(j) == [id |-> j.id, hk |-> j.hk, skip |-> ToSet(j.skip)]
ConfTab == TLCEval([i \in DOMAIN Log[1].confs |-> ConfOf(Log[1].confs[i])])
NameTab == TLCEval(Log[1].names)
TraceNames == TLCEval(ToSet(Log[1].names))

OutClass(out) == IF out = "ok" THEN "none" ELSE "BeartypeClawHookException"

\* the real observation logged with event e equals the specification's next state
Observed(e) ==
  /\ hook' = e.hook
  /\ root' = ConfTab[e.root]
  /\ \A i \in DOMAIN NameTab : proj'[NameTab[i]] = ConfTab[e.proj[i]]

TInit == Init /\ l = 2 /\ tid = 0 /\ okrun = TRUE

ResetAll ==
  /\ wl' = [p \in Names |-> NoConf] /\ nodes' = {} /\ root' = NoConf /\ bt' = {}
  /\ hook' = FALSE /\ ctx' = <<>> /\ res' = "init" /\ last' = Call("init", <<>>, NoConf)
  /\ greg' = [p \in Names |-> NoConf] /\ gskip' = {} /\ gbase' = NoConf
  /\ proj' = [p \in Names |-> NoConf]

TReset ==
  /\ l <= Len(Log) /\ Log[l].ev = "Reset"
  /\ PrintT(ToJson([done |-> tid, ok |-> okrun]))
  /\ ResetAll /\ l' = l + 1 /\ tid' = Log[l].tid /\ okrun' = TRUE

TCall ==
  /\ l <= Len(Log) /\ Log[l].ev # "Reset" /\ okrun
  /\ LET e == Log[l] IN
     /\ \E out \in Outs :
          /\ OutClass(out) = e.out
          /\ CASE e.ev = "Pkgs"    -> Pkgs(e.ps, ConfTab[e.c], out)
               [] e.ev = "This"    -> This(e.ps[1], ConfTab[e.c], out)
               [] e.ev = "BadName" -> BadName(ConfTab[e.c], out)
               [] e.ev = "All"     -> All(ConfTab[e.c], out)
               [] e.ev = "Enter"   -> Enter(ConfTab[e.c], out)
               [] e.ev = "Exit"    -> Exit(out)
     /\ Observed(e)
  /\ l' = l + 1 /\ UNCHANGED <<tid, okrun>>

\* give up this history at l (possible everywhere; the largest l printed for a history
\* that was not matched completely is its first unexplained event)
TSkip ==
  /\ l <= Len(Log) /\ Log[l].ev # "Reset" /\ okrun
  /\ PrintT(ToJson([at |-> l]))
  /\ ResetAll /\ l' = Log[l].nr /\ UNCHANGED tid /\ okrun' = FALSE   \* nr: position of the next Reset

TNext == TReset \/ TCall \/ TSkip
TSpec == TInit /\ [][TNext]_tvars

Reached == TLCSet(1, IF l > TLCGet(1) THEN l ELSE TLCGet(1))
Accepted == IF TLCGet(1) = Len(Log) + 1 THEN TRUE
            ELSE PrintT(ToJson([stuck_at |-> TLCGet(1)])) /\ FALSE
ASSUME TLCSet(1, 0)
=============================================================================
