\* Trace validation of recorded generator objects (set TRACE_FILE; the driver generates one
\* configuration per Kind).
SPECIFICATION TSpec
CONSTANTS
  Kind = "gen"
  Wrap = "faithful"
  KeepHist = FALSE
  EmitRows = FALSE
  MaxOps = 0
  PostMax = 0
  OpSet = {}
  PreA = {}
  PreMax = 0
  BlkA = {}
  BlkMax = 0
  HcSet = {}
  HblkA = {}
  HblkMax = 0
  FinA = {}
  FinMax = 0
  PostA = {}
  PostLen = 0
  WrappedSet = {"none"}
CONSTRAINT Reached
POSTCONDITION Accepted
CHECK_DEADLOCK FALSE
