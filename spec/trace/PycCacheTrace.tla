--------------------------- MODULE PycCacheTrace ---------------------------
(* Binding B3 for C16: ndjson logs recorded from real interpreter runs (wrappers around *)
(* importlib._bootstrap_external.cache_from_source and the module attribute itself,     *)
(* SourceFileLoader.get_filename / get_data / _cache_bytecode / get_code /              *)
(* source_to_code, BeartypeSourceFileLoader.get_code / source_to_code and               *)
(* get_package_conf_or_none) must be behaviours of PycCache.tla.  One log holds many    *)
(* behaviours (scratch source trees), separated by Reset events; a behaviour is a       *)
(* sequence of runs:  Start(hook) ; events of the imports ; End,  with Edit(m) between. *)
(*                                                                                      *)
(* Every event names its thread and module, so exactly one spec action can match it and *)
(* the search is linear.  The logged observation (file tag computed by the real         *)
(* cache_from_source, stamped source version and projected body of every .pyc read,     *)
(* compiled, written, and of the code object handed to exec) must equal what the        *)
(* action computes.  C16's invariants are evaluated at every step; a violated           *)
(* invariant does not stop the validation but is printed once, with the event index,    *)
(* so that the rest of the log is still checked (DESIGN 2.2).                           *)
(*                                                                                      *)
(* Modules in Foreign are imported by the runs but live outside the behaviour's tree    *)
(* (beartype's own lazily imported submodules, the shared stub package): their .pyc     *)
(* files persist across behaviours and parallel runs, so a Read of such a file first    *)
(* installs what was really found.                                                      *)
EXTENDS PycCache, Json, IOUtils, TLCExt

CONSTANT Foreign

Log == ndJsonDeserialize(IOEnv.TRACE_FILE)

VARIABLES l,       \* next event to consume
          seen     \* invariant violations already reported in this behaviour
tvars == <<vars, l, seen>>

Is(name) == l <= Len(Log) /\ Log[l].ev = name
E == Log[l]
Slot(e) == [sv |-> e.sv, body |-> e.body]
TopAfter(t) == th'[t][Len(th'[t])]

TInit == Init /\ l = 1 /\ seen = {}

TReset ==
  /\ Is("Reset")
  /\ src' = [m \in Modules |-> 1]
  /\ plain' = [m \in Modules |-> IF m \in Foreign THEN plain[m] ELSE Empty]
  /\ marked' = [m \in Modules |-> IF m \in Foreign THEN marked[m] ELSE [k \in Markers |-> Empty]]
  /\ phase' = "idle" /\ runs' = 0 /\ hook' = [m \in Modules |-> Off] /\ cfs' = PlainTag
  /\ th' = [t \in Threads |-> <<>>] /\ started' = {} /\ executed' = [m \in Modules |-> Empty]

HookOf(e) == [m \in Modules |-> IF m \in DOMAIN e.hook THEN e.hook[m] ELSE Off]
TStart == Is("Start") /\ StartRunWith(HookOf(E))
TEnd   == Is("End") /\ EndRun
TEdit  == Is("Edit") /\ EditSource(E.m)

\* the configuration found for the module is the one its package was hooked with
TLookup ==
  /\ Is("Lookup") /\ Lookup(E.th, E.m)
  /\ E.hooked = (hook[E.m] # Off)
  /\ E.key = Want(hook[E.m]).key

TPatch == Is("Patch") /\ Patch(E.th) /\ cfs' = E.tag
TPath  == Is("Path") /\ ComputePath(E.th) /\ TopAfter(E.th).tag = E.tag

\* get_data(bytecode_path) succeeded: the file content is what the model says is there;
\* it is used iff its stamp matches the source
TRead ==
  /\ Is("Read") /\ Busy(E.th)
  /\ LET f == Top(E.th) IN
     /\ f.pc = "pathed" /\ f.m = E.m /\ f.tag = E.tag
     /\ IF f.m \in Foreign
        THEN /\ IF f.tag = PlainTag
                THEN plain' = [plain EXCEPT ![f.m] = Slot(E)] /\ UNCHANGED marked
                ELSE marked' = [marked EXCEPT ![f.m][f.tag] = Slot(E)] /\ UNCHANGED plain
             /\ th' = IF E.sv = src[f.m] THEN SetTop(E.th, [f EXCEPT !.pc = "have", !.got = Slot(E)]) ELSE th
             /\ UNCHANGED <<src, phase, runs, hook, cfs, started, executed>>
        ELSE /\ Slot(E) = SlotAt(f.m, f.tag)
             /\ IF Valid(f.m, f.tag) THEN ReadCache(E.th) ELSE UNCHANGED vars

\* (a Foreign file that was not read did not exist when this run looked, whatever an earlier
\*  behaviour of the log -- possibly a run in parallel -- wrote: forget it)
TCompile ==
  /\ Is("Compile") /\ Busy(E.th)
  /\ IF Top(E.th).m \in Foreign /\ Top(E.th).pc = "pathed"
     THEN LET f == Top(E.th) IN
          /\ IF f.tag = PlainTag
             THEN plain' = [plain EXCEPT ![f.m] = Empty] /\ UNCHANGED marked
             ELSE marked' = [marked EXCEPT ![f.m][f.tag] = Empty] /\ UNCHANGED plain
          /\ th' = SetTop(E.th, [f EXCEPT !.pc = "compiled", !.got = [sv |-> src[f.m], body |-> Want(f.conf)]])
          /\ UNCHANGED <<src, phase, runs, hook, cfs, started, executed>>
     ELSE Compile(E.th)
  /\ TopAfter(E.th).m = E.m /\ TopAfter(E.th).got = Slot(E)

TWrite ==
  /\ Is("Write") /\ WriteCache(E.th)
  /\ Top(E.th).m = E.m /\ Top(E.th).tag = E.tag /\ Top(E.th).got = Slot(E)

TRestore == Is("Restore") /\ Top(E.th).m = E.m /\ Restore(E.th) /\ cfs' = E.tag

\* get_code returned: the body handed to exec()
TDone ==
  /\ Is("Done")
  /\ IF Busy(E.th) /\ Top(E.th).m = E.m
     THEN Finish(E.th) /\ executed'[E.m].body = E.body
     ELSE UNCHANGED vars /\ executed[E.m].body = E.body

\* ---- invariants, reported without stopping ---------------------------------------
Viol(inv, m) == [inv |-> inv, m |-> m]
ViolSet ==
     { Viol("I1plain", m) : m \in { x \in Modules : plain[x].sv # 0 /\ plain[x].body.hooked } }
  \cup { Viol("I1marked", m) : m \in { x \in Modules : \E k \in Markers : marked[x][k].sv # 0 /\ ~marked[x][k].body.hooked } }
  \cup { Viol("I2", m) : m \in { x \in Modules : phase = "run" /\ executed[x].sv # 0
                                   /\ executed[x] # [sv |-> src[x], body |-> Want(hook[x])] } }
  \cup (IF I3 THEN {} ELSE {Viol("I3", "-")})

TNext ==
  /\ \/ TReset \/ TStart \/ TEnd \/ TEdit \/ TLookup \/ TPatch \/ TPath \/ TRead \/ TCompile
     \/ TWrite \/ TRestore \/ TDone
  /\ l' = l + 1
  /\ LET keep == IF Is("Reset") THEN {} ELSE IF Is("Start") THEN { v \in seen : v.inv # "I2" } ELSE seen
         new  == ViolSet' \ keep
     IN /\ seen' = keep \cup new
        /\ \A v \in new : PrintT(ToJson([viol |-> v.inv, m |-> v.m, at |-> l]))

TSpec == TInit /\ [][TNext]_tvars

Reached == TLCSet(1, IF l > TLCGet(1) THEN l ELSE TLCGet(1))
Accepted == IF TLCGet(1) = Len(Log) + 1 THEN TRUE
            ELSE PrintT(ToJson([rejected_at |-> TLCGet(1)])) /\ FALSE
ASSUME TLCSet(1, 0)
=============================================================================
