--------------------------- MODULE MC_SubhintLaws ---------------------------
(* C19: the laws of is_subhint / TypeHint.__eq__ that range over several rows of the    *)
(* relation.  The matrix is the one MC_Subhint.tla computed (IsSub / EqH of             *)
(* Subhint.tla under one set of flags, one emitted row per hint), assembled by the      *)
(* driver into IOEnv.MATRIX_FILE:                                                       *)
(*   [sub |-> <<row_1, ..., row_n>>, eq |-> <<...>>, hasany |-> <<0/1, ...>>]           *)
(* with codes 1 = holds, 0 = does not hold, 2 = raises BeartypeDoorIsSubhintException.  *)
(* An exception counts as "does not hold": a <= b, b <= c and a <= c raising violates   *)
(* transitivity.                                                                        *)
EXTENDS Naturals, Sequences, TLC, Json, IOUtils

CONSTANT RawHash     \* TRUE: __hash__ is the hash of the wrapped hint (0.23.0): distinct hints, distinct hashes
                     \* FALSE: the hash the property demands, constant on classes of mutual subhints

Mat == TLCEval(JsonDeserialize(IOEnv.MATRIX_FILE))
Sub == Mat.sub
Eq  == Mat.eq
N   == TLCEval(Len(Mat.sub))
HS  == 1..N
NoAny(i) == Mat.hasany[i] = 0

CH == 4
VARIABLES st, ia
vars == <<st, ia>>
Init == st = 0 /\ ia = 0
Chunk == st = 0 /\ st' = 1 /\ ia' \in { 1 + k * CH : k \in 0 .. ((N - 1) \div CH) }
PickHint == st = 1 /\ st' = 2 /\ ia' \in { j \in ia .. (ia + CH - 1) : j <= N }
Next == Chunk \/ PickHint
Spec == Init /\ [][Next]_vars
Active == st = 2

Reflexive == Active => Sub[ia][ia] = 1
Transitive ==
  Active => \A b \in HS : Sub[ia][b] = 1 => \A c \in HS : Sub[b][c] = 1 => Sub[ia][c] = 1
\* the same law on triples no member of which involves Any
TransitiveNoAny ==
  (Active /\ NoAny(ia)) =>
     \A b \in HS : (Sub[ia][b] = 1 /\ NoAny(b)) => \A c \in HS : (Sub[b][c] = 1 /\ NoAny(c)) => Sub[ia][c] = 1

Mutual(i, j) == Sub[i][j] = 1 /\ Sub[j][i] = 1
HashKey(i) == IF RawHash THEN i
              ELSE CHOOSE m \in HS : Mutual(i, m) /\ \A n \in 1..(m - 1) : ~Mutual(i, n)
\* wrappers that compare equal have equal hashes and are mutual subhints
Coh_EqHash   == Active => \A b \in HS : Eq[ia][b] = 1 => HashKey(ia) = HashKey(b)
Coh_EqMutual == Active => \A b \in HS : Eq[ia][b] = 1 => Mutual(ia, b)
=============================================================================
