\* Stand-alone configuration: the intended keying disciplines on the repr slice.
\* The driver (verifkit/drivers/c14.py) generates one configuration per (Legacy, Scope, MaxOps).
SPECIFICATION Spec
CONSTANTS
  Legacy = {}
  Scope = "repr"
  MaxOps = 4
INVARIANT ReturnFresh
INVARIANT NoStickyFailure
INVARIANT HitIsFirstTime
INVARIANT NoStaleIdHit
INVARIANT NoForeignDedup
INVARIANT TypeOK
CHECK_DEADLOCK FALSE
