---------------------------- MODULE MC_Semantics ----------------------------
(* Query enumeration for Semantics.tla: the bounded hint grammar, the object     *)
(* universe, the design-level invariants (R1) and the case-table rows (R2).      *)
(* State = one hint (reached through chunk states so that TLC's workers share    *)
(* the enumeration); every invariant quantifies over the whole object universe,  *)
(* all draw residues and all configuration variants.                             *)
EXTENDS Semantics, SequencesExt, FiniteSetsExt, Json, IOUtils

CONSTANTS Tier,     \* "quick" | "thorough"
          L,        \* maximal container length in the object universe
          Emit      \* TRUE: print one JSON row per (hint, configuration)

SeqsUpTo(S, n) == UNION { [1..k -> S] : k \in 0..n }
Distinct(s) == \A i, j \in DOMAIN s : i # j => ~PyEq(s[i], s[j])

(* ------------------------------------------------------------------ objects *)
AllAtoms  == {i0, i1, i2, bF, bT, f1, f2, cj, sa, sb, none, oa, ob, pm, og}
TypeObjs  == {TypeObj("int"), TypeObj("bool"), TypeObj("str"), TypeObj("A"), TypeObj("B"), TypeObj("float")}
ItemAtoms == IF Tier = "quick" THEN {i1, bT, sa, none, ob} ELSE {i1, bT, sa, none, ob, f1}
KeyAtoms  == {i1, sa, none}
SmallAtoms == {i1, sa}

D1Seq  == { Cont(c, s) : c \in SeqCls \cup {"UColl", "dict_values", "GL", "GN"}, s \in SeqsUpTo(ItemAtoms, L) }
D1Set  == { Cont(c, s) : c \in {"set", "frozenset", "dict_keys"},
                          s \in { t \in SeqsUpTo(ItemAtoms, L) : Distinct(t) } }
D1Iter == { Iter(c, s) : c \in IterCls, s \in SeqsUpTo(SmallAtoms \cup {none}, 2) }
Pairs(K, Vs) == { KV(a, b) : a \in K, b \in Vs }
KeyDistinct(s) == \A i, j \in DOMAIN s : i # j => ~PyEq(s[i].key, s[j].key)
D1Map  == { Map(c, s) : c \in {"dict", "defaultdict", "OrderedDict", "UMap"},
                         s \in { t \in SeqsUpTo(Pairs(KeyAtoms, ItemAtoms), 2) : KeyDistinct(t) } }
         \cup { Map("Counter", s) : s \in { t \in SeqsUpTo(Pairs(KeyAtoms, {i1, i2, sa}), 2) : KeyDistinct(t) } }
Tup2(S, T) == { Cont("tuple", <<a, b>>) : a \in S, b \in T }
D1Items == { Cont("dict_items", s) :
               s \in { t \in SeqsUpTo(Tup2(KeyAtoms, {i1, sa}), 2) :
                        \A i, j \in DOMAIN t : i # j => ~PyEq(t[i].items[1], t[j].items[1]) } }

\* depth 2: containers of small containers
Inner == { Cont(c, s) : c \in {"list", "tuple"}, s \in SeqsUpTo(SmallAtoms, 2) }
         \cup { Cont("set", s) : s \in {<<>>, <<i1>>, <<sa>>} }
         \cup { Map("dict", s) : s \in {<<>>, <<KV(sa, i1)>>, <<KV(sa, sa)>>, <<KV(i1, i1)>>} }
InnerHashable == { x \in Inner : x.cls = "tuple" }
Items2 == Inner \cup {i1, sa, none}
D2Seq == { Cont(c, s) : c \in {"list", "tuple", "USeq", "deque"}, s \in SeqsUpTo(Items2, 2) }
D2Set == { Cont("set", s) : s \in { t \in SeqsUpTo(InnerHashable \cup {i1}, 2) : Distinct(t) } }
D2Map == { Map(c, s) : c \in {"dict", "UMap"},
                       s \in { t \in SeqsUpTo(Pairs({sa, i1}, Items2), IF Tier = "quick" THEN 1 ELSE 2) : KeyDistinct(t) } }
         \cup { Map("dict", <<KV(k, v)>>) : k \in InnerHashable, v \in {i1, sa} }

Objs == AllAtoms \cup TypeObjs \cup D1Seq \cup D1Set \cup D1Iter \cup D1Map \cup D1Items
        \cup D2Seq \cup D2Set \cup D2Map
OSeq == TLCEval(SetToSeq(Objs))
NObj == TLCEval(Len(OSeq))

(* -------------------------------------------------------------------- hints *)
IntH == HCls("int")  StrH == HCls("str")  NoneH == HCls("NoneType")
LeafAll == {HAny, HCls("object"), IntH, HCls("bool"), StrH, HCls("float"), HCls("complex"), NoneH,
            HCls("A"), HCls("B"), HCls("list"), HCls("dict"),
            HLit(<<i1>>), HLit(<<i1, sa>>), HLit(<<bT>>), HLit(<<none, sb>>),
            HType(IntH), HType(HAny), HType(HUnion(<<IntH, StrH>>)), HType(HCls("A")),
            HShallow("Iterator"), HShallow("Generator"),
            HCls("HasM"), HCls("PM"), HGen("G", IntH), HGen("GL", IntH), HGen("GL", HAny), HGen("GL", HCls("HasM")),
            HGen("GN", IntH), HGen("GN", StrH), HGen("GN", HAny)}
LeafKid == IF Tier = "quick"
           THEN {HAny, IntH, StrH, NoneH, HCls("float"), HLit(<<i1, sa>>), HCls("A")}
           ELSE {HAny, HCls("object"), IntH, HCls("bool"), StrH, NoneH, HCls("float"), HCls("complex"),
                 HLit(<<i1, sa>>), HLit(<<bT>>), HCls("A"), HCls("B"), HType(IntH)}
KeyKid == {HAny, IntH, StrH}

U2(S) == { HUnion(<<a, b>>) : a, b \in S }
D1H == { HSeq(s, c)   : s \in SeqSigns,   c \in LeafKid }
  \cup { HReit(s, c)  : s \in ReitSigns,  c \in LeafKid }
  \cup { HQuasi(s, c) : s \in QuasiSigns, c \in LeafKid }
  \cup { HMap(s, k, v) : s \in MapSigns \ {"Counter"}, k \in KeyKid, v \in LeafKid }
  \cup { HCounter(k) : k \in KeyKid }
  \cup { HItems(k, v) : k \in {IntH, StrH}, v \in {IntH, StrH, HAny} }
  \cup { HGen("GL", c) : c \in LeafKid } \cup { HSeq("list", HCls("HasM")), HUnion(<<HCls("HasM"), NoneH>>) }
  \cup { HTupF(s) : s \in SeqsUpTo(LeafKid, 2) }
  \cup { h \in U2(LeafKid \ {HAny}) : h.a[1] # h.a[2] }
  \cup { HUnion(<<IntH, StrH, NoneH>>), HUnion(<<IntH, HAny>>), HUnion(<<HUnion(<<IntH, StrH>>), NoneH>>) }

Kid2 == { HSeq("list", IntH), HSeq("list", HAny), HTupF(<<IntH, StrH>>), HSeq("tuple", IntH),
          HReit("set", IntH), HMap("dict", StrH, IntH), HQuasi("Iterable", IntH), HSeq("Sequence", StrH),
          HUnion(<<IntH, StrH>>), HUnion(<<HSeq("list", IntH), NoneH>>), HLit(<<i1, sa>>) }
Leaf2 == {IntH, StrH, NoneH}
D2H == { HSeq(s, k)   : s \in {"list", "Sequence", "tuple"}, k \in Kid2 }
  \cup { HReit(s, k)  : s \in {"set", "Collection", "deque", "ValuesView"}, k \in Kid2 }
  \cup { HQuasi("Iterable", k) : k \in Kid2 }
  \cup { HMap(s, k, v) : s \in {"dict", "Mapping"}, k \in {StrH, HTupF(<<IntH, StrH>>), HSeq("tuple", IntH)}, v \in Kid2 }
  \cup { HTupF(<<k, l>>) : k \in Kid2, l \in Leaf2 \cup {HAny} }
  \cup { HTupF(<<l, k>>) : k \in Kid2, l \in Leaf2 \cup {HAny} }
  \cup { HUnion(<<k, l>>) : k \in Kid2, l \in Leaf2 }
  \cup { HUnion(<<k, m>>) : k \in {HSeq("list", IntH), HMap("dict", StrH, IntH)}, m \in {HSeq("list", StrH), HTupF(<<IntH, StrH>>), HReit("set", IntH)} }
  \cup { HSeq("list", HGen("GN", IntH)), HTupF(<<HGen("GN", IntH), IntH>>), HUnion(<<HGen("GN", IntH), NoneH>>) }
  \cup { HSeq("list", HGen("GL", IntH)), HTupF(<<HGen("GL", StrH), IntH>>), HUnion(<<HGen("GL", IntH), NoneH>>),
         HMap("dict", StrH, HGen("GL", IntH)), HGen("GL", HSeq("list", IntH)), HGen("GL", HUnion(<<IntH, StrH>>)) }

HintSet == LeafAll \cup D1H \cup D2H
HintSeq == TLCEval(SetToSeq(HintSet))
NHint == TLCEval(Len(HintSeq))

Confs == << Conf(TRUE, FALSE, FALSE), Conf(FALSE, FALSE, FALSE), Conf(TRUE, TRUE, FALSE), Conf(TRUE, FALSE, TRUE),
           [Conf0 EXCEPT !.ov3 = TRUE] >>
\* lcm(1..L): the draw enters only as r % len
Lcm == CASE L = 1 -> 1 [] L = 2 -> 2 [] L = 3 -> 6 [] L = 4 -> 12
Draws == 0 .. (Lcm - 1)

(* ----------------------------------------------------------- state machine *)
CH == 4
VARIABLES ph, hid
vars == <<ph, hid>>
Init == ph = 0 /\ hid = 0
Next == \/ /\ ph = 0 /\ ph' = 1
           /\ hid' \in { 1 + k * CH : k \in 0 .. ((NHint - 1) \div CH) }
        \/ /\ ph = 1 /\ ph' = 2
           /\ hid' \in { j \in hid .. (hid + CH - 1) : j <= NHint }
Spec == Init /\ [][Next]_vars
Hint == HintSeq[hid]
Active == ph = 2

(* ------------------------------------------------------ design invariants (R1) *)
Pub(h, c) == Rewrite(h, c)       \* the documented meaning under configuration c

\* C01: what the hint allows is never rejected, whatever the draw
C01_NoFalseAlarm ==
  Active => \A ci \in DOMAIN Confs : \A j \in 1..NObj : \A r \in Draws :
              Sat(Pub(Hint, Confs[ci]), OSeq[j]) => Chk(Hint, OSeq[j], r, Confs[ci])
\* C02a: violations no sampling can hide are rejected under every draw
C02a_MustReject ==
  Active => \A ci \in DOMAIN Confs : \A j \in 1..NObj : \A r \in Draws :
              MustReject(Pub(Hint, Confs[ci]), OSeq[j]) => ~Chk(Hint, OSeq[j], r, Confs[ci])
\* C02b: every index of a sequence is reachable by some draw
SeqLike(h, x) == \/ h.k = "seq" /\ InstOf(x, h.s)
                 \/ h.k = "quasi" /\ InstOf(x, h.s) /\ InstOf(x, "Sequence")
C02b_EveryIndexReachable ==
  Active => \A j \in 1..NObj :
     LET h == Pub(Hint, Conf0)  x == OSeq[j] IN
     SeqLike(h, x) =>
        \A i \in 1..LenOf(x) : MustReject(h.a[1], ItemsOf(x)[i]) => \E r \in Draws : ~Chk(Hint, x, r, Conf0)
\* C02c: with is_random = False the draw is irrelevant and item 0 is the one inspected
C02c_NonRandomFirst ==
  Active => \A j \in 1..NObj :
     LET c == Confs[2]  h == Pub(Hint, c)  x == OSeq[j] IN
     /\ \A r \in Draws : Chk(Hint, x, r, c) = Chk(Hint, x, 0, c)
     /\ (SeqLike(h, x) /\ LenOf(x) > 0 /\ MustReject(h.a[1], ItemsOf(x)[1])) => ~Chk(Hint, x, 0, c)
     /\ (SeqLike(h, x) /\ LenOf(x) > 0 /\ Sat(h.a[1], ItemsOf(x)[1])) => Chk(Hint, x, 0, c)
\* C02d: an accepted object has a consistent item (or emptiness) at each level
C02d_AcceptedIsWeak ==
  Active => \A ci \in DOMAIN Confs : \A j \in 1..NObj : \A r \in Draws :
              Chk(Hint, OSeq[j], r, Confs[ci]) => Weak(Pub(Hint, Confs[ci]), OSeq[j])
\* C02e: only children that accept everything are elided
C02e_IgnorableAcceptsAll ==
  Active /\ Ignorable(Hint) => \A j \in 1..NObj : Sat(Hint, OSeq[j])
\* lemmas relating the declarative operators
Lemma_SatOrder ==
  Active => \A j \in 1..NObj :
     /\ Sat(Hint, OSeq[j]) => SatB(Hint, OSeq[j])
     /\ SatB(Hint, OSeq[j]) => Weak(Hint, OSeq[j])
     /\ MustReject(Hint, OSeq[j]) => ~SatB(Hint, OSeq[j])
\* the draw abstraction: only r mod lcm(1..L) matters
Lemma_DrawAbstraction ==
  Active => \A j \in 1..NObj : \A r \in Draws :
     Chk(Hint, OSeq[j], r, Conf0) = Chk(Hint, OSeq[j], r + 7 * Lcm, Conf0)

Stretch(x) == IF x.k = "cont" /\ x.cls \in SeqCls \cup {"UColl", "dict_values"}
              THEN [x EXCEPT !.items = x.items \o x.items] ELSE x
\* C09: the number of items read is bounded by a constant fixed by the hint alone - also for
\* the doubled (stretched) object - and equals the model's verdict
C09_ReadBound ==
  Active => \A ci \in {1, 2} : \A j \in 1..NObj : \A r \in Draws :
     LET hp == Pub(Hint, Confs[ci])
         e  == Ev(hp, OSeq[j], r, Confs[ci])
         e2 == Ev(hp, Stretch(OSeq[j]), r, Confs[ci]) IN
     /\ e.rd <= ReadBound(hp) /\ e.ln <= LenBound(hp) /\ e.it <= ReadBound(hp)
     /\ e2.rd <= ReadBound(hp) /\ e2.ln <= LenBound(hp)
     /\ e.ok = Chk(Hint, OSeq[j], r, Confs[ci])
\* C10: no forbidden operation (nothing at all happens to iterables that are not collections)
C10_NoForbiddenOp ==
  Active => \A j \in 1..NObj : \A r \in Draws :
     LET e == Ev(Hint, OSeq[j], r, Conf0) IN
     /\ e.bad = 0
     /\ (OSeq[j].k = "iter") => (e.rd = 0 /\ e.ln = 0 /\ e.it = 0)

\* size stretching (DESIGN 3.5): both verdict classes are closed under replicating items
Lemma_StretchClosure ==
  (Active /\ Hint.k \in {"seq", "reit", "quasi"}) => \A j \in 1..NObj :
     /\ Sat(Hint, OSeq[j]) => Sat(Hint, Stretch(OSeq[j]))
     /\ MustReject(Hint, OSeq[j]) => MustReject(Hint, Stretch(OSeq[j]))

(* -------------------------------------------------------------- rows (R2) *)
RECURSIVE HasKind(_, _), HasCls(_, _)
HasKind(h, ks) == h.k \in ks \/ \E i \in DOMAIN h.a : HasKind(h.a[i], ks)
HasCls(h, cs)  == (h.k = "cls" /\ h.s \in cs) \/ \E i \in DOMAIN h.a : HasCls(h.a[i], cs)
\* configuration variants that can change the verdict of this hint
RelevantConf(h, ci) ==
  CASE ci = 1 -> TRUE
    [] ci = 2 -> HasKind(h, {"seq", "quasi"})
    [] ci = 3 -> HasCls(h, {"float", "complex"})
    [] ci = 4 -> HasCls(h, {"A"})
    [] ci = 5 -> HasCls(h, {"A"})

Bit(b, w) == IF b THEN w ELSE 0
Code(h, x) == Bit(Sat(h, x), 1) + Bit(SatB(h, x), 2) + Bit(MustReject(h, x), 4) + Bit(Weak(h, x), 8)
RECURSIVE ChkMask(_, _, _, _)
ChkMask(h, x, c, r) == IF r >= Lcm THEN 0
                       ELSE Bit(Chk(h, x, r, c), 2 ^ r) + ChkMask(h, x, c, r + 1)
\* for sequence-like subjects: bit i-1 set iff item i must be rejected by the child hint;
\* bit 6 set iff the first item fully satisfies the child hint
RECURSIVE BadMask(_, _, _)
BadMask(hc, its, i) == IF i > Len(its) THEN 0
                       ELSE Bit(MustReject(hc, its[i]), 2 ^ (i - 1)) + BadMask(hc, its, i + 1)
IdxInfo(h, x) == IF SeqLike(h, x) /\ LenOf(x) > 0
                 THEN BadMask(h.a[1], ItemsOf(x), 1) + Bit(Sat(h.a[1], ItemsOf(x)[1]), 64) + 128
                 ELSE 0
Row(ci) == LET c == Confs[ci]  hh == Hint  ph2 == Pub(Hint, c)  os == OSeq IN
   [t |-> "row", hid |-> hid, conf |-> ci, h |-> hh, pub |-> ph2, ign |-> Ignorable(ph2),
    code |-> [j \in 1..Len(os) |-> Code(ph2, os[j])],
    chk  |-> [j \in 1..Len(os) |-> ChkMask(hh, os[j], c, 0)],
    idx  |-> [j \in 1..Len(os) |-> IdxInfo(ph2, os[j])]]
EmitRows == (Active /\ Emit) =>
              \A ci \in DOMAIN Confs : RelevantConf(Hint, ci) =>
                 JsonSerialize(IOEnv.ROW_DIR \o "/row_" \o ToString(hid) \o "_" \o ToString(ci) \o ".json", Row(ci))
EmitObjs == (ph = 0 /\ Emit) =>
              JsonSerialize(IOEnv.ROW_DIR \o "/objs.json", [t |-> "objs", objs |-> OSeq, confs |-> Confs, lcm |-> Lcm])
=============================================================================
