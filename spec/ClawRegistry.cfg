SPECIFICATION Spec
CONSTANTS
  Basenames = {"a", "b"}
  MaxDepth = 2
  RegPaths <- DefaultRegPaths
  Builtin = {}
  UserConfs <- DefaultConfs
  MaxCtx = 1
  MaxPkgs = 2
  Legacy = {}
INVARIANT TypeOK
INVARIANT LookupOK
INVARIANT ProjOK
INVARIANT RootOK
INVARIANT HookOK
INVARIANT NodesOK
PROPERTY OutcomeOK
PROPERTY FailedCallAtomic
PROPERTY ReRegisterNoop
PROPERTY ExitRestores
VIEW View
CHECK_DEADLOCK FALSE
