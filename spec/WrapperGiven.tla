---------------------------- MODULE WrapperGiven ----------------------------
(***************************************************************************)
(* Wrapper.tla as an oracle for GIVEN cases (C04, beyond the exhaustively  *)
(* enumerated bounds): the driver draws seeded random signatures with up   *)
(* to three parameters of each named kind and random calls (any number of  *)
(* bad values, up to four keywords, up to nine positional values), writes  *)
(* them as ndjson, and this module prints for each signature the same row  *)
(* as Wrapper!Emit -- PyBind, outcome per variant, run count, checked      *)
(* pairs, blamed parameter -- evaluating every clause of the property on   *)
(* the way.  One leaf state per given signature.                            *)
(*                                                                         *)
(* ndjson line:  {"sig": [{"kind","name","ann","dflt"}..],                 *)
(*                "calls": [{"p": ["g","b",..], "k": [["name","g"],..]}]}  *)
(* Names must come from Wrapper!NameOrder (the canonical keyword order);   *)
(* tags are "g" "b" "n" "z" "o" in any mix.                                *)
(***************************************************************************)
EXTENDS Wrapper, IOUtils

Cases == ndJsonDeserialize(IOEnv.C04_CASES)

VARIABLE gi        \* index of the given signature
gvars == <<vars, gi>>

SigOf(e) == [i \in DOMAIN e.sig |-> [kind |-> e.sig[i].kind, name |-> e.sig[i].name,
                                     ann |-> e.sig[i].ann, dflt |-> e.sig[i].dflt]]
CallOf(j) == [pos |-> [i \in DOMAIN j.p |-> j.p[i]],
              kw  |-> [n \in { j.k[i][1] : i \in DOMAIN j.k } |->
                         j.k[CHOOSE i \in DOMAIN j.k : j.k[i][1] = n][2]]]

\* gi = 0: root; gi = Blk + k: block k (a fan-out level, so that the rows -- computed when a leaf
\* is generated -- are spread over TLC's workers); 1..Len(Cases): the given signature itself
Blocks == 64
Blk == 1000000
GInit == gi = 0 /\ sig = <<>> /\ code = GenCode(<<>>) /\ call = NoCall /\ var = VariantSeq[1] /\ w = Idle
GFan  == gi = 0 /\ gi' \in { Blk + k : k \in 0..(Blocks - 1) } /\ UNCHANGED vars
GLeaf == /\ gi >= Blk
         /\ gi' \in { i \in DOMAIN Cases : i % Blocks = gi - Blk }
         /\ sig' = SigOf(Cases[gi']) /\ code' = GenCode(sig')
         /\ UNCHANGED <<call, var, w>>
GNext == GFan \/ GLeaf
GSpec == GInit /\ [][GNext]_gvars

\* the given signature is one the grammar of Wrapper.tla could have built
Legal(s) == /\ \A i \in DOMAIN s : s[i].name \in Range(NameOrder)
            /\ \A i \in 1..(Len(s) - 1) :
                 IF Rank(s[i].kind) = Rank(s[i + 1].kind) THEN s[i].kind \in {"posonly", "flex", "kwonly"}
                 ELSE Rank(s[i].kind) < Rank(s[i + 1].kind)
            /\ \A i \in DOMAIN s : \A j \in DOMAIN s :
                 (i < j /\ s[i].kind \in {"posonly", "flex"} /\ s[j].kind \in {"posonly", "flex"} /\ s[i].dflt) => s[j].dflt
            /\ \A i \in DOMAIN s : s[i].kind \in {"varpos", "varkw"} => ~s[i].dflt
            /\ \A i \in DOMAIN s : \A j \in DOMAIN s : i # j => s[i].name # s[j].name

GRow == [sig |-> sig, gen |-> [j \in DOMAIN code.G |-> <<code.G[j].kind, code.G[j].name, code.G[j].idx>>],
         needlen |-> code.needlen, kwable |-> code.kwable, haskw |-> Has(sig, "varkw"),
         variants |-> VariantSeq, shapes |-> ShapeRows,
         calls |-> { CallRow(sig, code, CallOf(Cases[gi].calls[j])) : j \in DOMAIN Cases[gi].calls }]
GEmit == gi \in DOMAIN Cases =>
         LET row == GRow IN Legal(sig) /\ KindsOK /\ PrintT(ToJson(Printable(row))) /\ \A r \in row.calls : r.h
=============================================================================
