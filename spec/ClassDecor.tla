----------------------------- MODULE ClassDecor -----------------------------
(***************************************************************************)
(* C13 -- decorating a class equals decorating its methods; the no-op      *)
(* cases are identities.                                                   *)
(*                                                                         *)
(* Code modelled (beartype 0.23.0):                                        *)
(*   _decor/decormain.py      beartype under "python -O": returns obj      *)
(*   _decor/decorcache.py     beartype(obj) / beartype(conf=..)(obj)       *)
(*   _decor/decorcore.py      beartype_object: type -> beartype_type,      *)
(*                            anything else -> beartype_nontype            *)
(*   _decor/_type/decortype.py  beartype_type:                             *)
(*        CheckMark ; for every item of cls.__dict__ : Walk<kind> ;        *)
(*        SetMark ; return cls                                             *)
(*   _decor/_nontype/decornontype.py  beartype_nontype (dispatch on the    *)
(*        descriptor type), beartype_func (O0 -> no_type_check(func);      *)
(*        is_func_unbeartypeable -> return func; else make_func +          *)
(*        update_wrapper + set_func_beartyped)                             *)
(*   _decor/_nontype/_builtin/decorbuiltindescriptor.py  classmethod /     *)
(*        staticmethod re-wrapped in descriptor.__class__, property        *)
(*        rebuilt from decorated fget / fset / fdel                        *)
(*   _util/bear/utilbearfunc.py  is_func_unbeartypeable                    *)
(*                                                                         *)
(* Faithful side: a small-step machine with an explicit stack of           *)
(* beartype_type activations (one action per control point).               *)
(* Declarative side: WantClass / WantFunc -- "decorate by hand every       *)
(* function, classmethod, staticmethod and property the class itself       *)
(* defines, recursively for the classes NESTED in it" (nesting = the       *)
(* lexical owner relation, not a property of names) -- and the frame,      *)
(* idempotence, identity and metadata clauses of C13 as invariants.        *)
(*                                                                         *)
(* Rule   "nested"  a class-valued attribute is decorated iff its          *)
(*                  qualname continues the outer qualname with a "."       *)
(*                  (the intended design)                                  *)
(*        "prefix"  beartype 0.23.0:  qualname.startswith(outer qualname)  *)
(*                  -- a foreign class  DerivedAux  merely referenced from *)
(*                  class  Derived  is decorated too, and a class that     *)
(*                  references itself (Derived.ref = Derived) recurses     *)
(*                  until RecursionError (run as a mutant; TLC reports     *)
(*                  AliasUntouched / RouteEq / ReturnsSelf)                *)
(* SubRule "mro"    a member whose type is a SUBCLASS of classmethod /     *)
(*                  staticmethod (abc.abstractclassmethod, ...) is         *)
(*                  decorated like its base kind and keeps its type        *)
(*                  (the intended design)                                  *)
(*         "exact"  beartype 0.23.0: dispatch on the exact type name: a    *)
(*                  classmethod subclass is "uncallable, not decoratable"  *)
(*                  (the decoration raises), a staticmethod subclass is    *)
(*                  replaced by a plain function (run as a mutant)         *)
(* Mutant "none" | "inherited" | "alias" | "doublewrap" | "cm2func" |      *)
(*        "nometa" | "wrapunann" | "nowrap" |                              *)
(*        "ctxdropped" under a non-fatal configuration the class route     *)
(*                  does not hand the class stack to its members: members  *)
(*                  whose hints need it (typing.Self) fail to decorate,    *)
(*                  the error becomes a warning, they stay unwrapped       *)
(*        "exacttype"  members are filtered by  value.__class__ in TYPES   *)
(*                  instead of isinstance: nested classes whose metaclass  *)
(*                  is not plain type (ABC, Enum, Protocol, custom) and    *)
(*                  descriptor subclasses are silently skipped             *)
(***************************************************************************)
EXTENDS Naturals, Sequences, FiniteSets, TLC, Json

CONSTANTS Rule, SubRule, Mutant,
          Optimized,      \* TRUE: the interpreter runs with -O
          Groups,         \* set of groups of universes and scenarios, each a record
                          \*   [name, VB, VB2, VD, VO, VI, VDeep, MB, MI, ME, Aliases, DCs, Orders, Confs, Free, MaxOps]
                          \*   VB, VB2    variants of Base.a, Base.a2             ("none" = absent)
                          \*   VD, VO     variants of Derived.b, Derived.a (overrides Base.a)
                          \*   VI, VDeep  variants of Derived.Inner.c, Derived.Inner.Deep.d
                          \*   MB, MI, ME metaclass flavour of Base, Derived.Inner, Derived.Inner.Deep:
                          \*              "type" | "abc" (abc.ABC) | "custom" (metaclass=Meta) | "enum" (enum.Enum
                          \*              with a member) | "protocol" (typing.Protocol); Derived inherits Base's
                          \*   Aliases    subset of {"none", "Aux", "DerivedAux", "Base", "Self"}: Derived.ref = <that class>
                          \*   DCs        subset of {"none", "B", "D"}: the class that may become a dataclass
                          \*   Orders     names of the decoration orders to script (see Scripts)
                          \*   Confs      subset of {"D", "O0", "N", "W"}:  D default, O0 strategy, N custom violation
                          \*              types, W non-fatal decoration (warning_cls_on_decorator_exception
                          \*              set, as beartype.claw does) with its own violation types
                          \*   Free       TRUE: operations are chosen freely (up to MaxOps) instead of scripted
                          \* (a .cfg file cannot hold records: Groups <- <an operator of a model module>)
          Emit            \* TRUE: print one JSON row per quiescent state (binding B1/B2)

(* ------------------------------------------------------------------------ *)
(* Member variants.  A part letter describes one function object:           *)
(*   "a" annotated   "u" unannotated   "n" annotated + @no_type_check       *)
(*   "m" unannotated + @no_type_check  "-" absent                           *)
(* parts = <<function>> for func / classmethod / staticmethod,              *)
(*         <<fget, fset, fdel>> for property                                *)
(* ------------------------------------------------------------------------ *)
VR(k, a, b, c) == [kind |-> k, parts |-> <<a, b, c>>, sub |-> FALSE]
\* the member's type is a strict subclass of the builtin descriptor type
VS(k, a, b, c) == [kind |-> k, parts |-> <<a, b, c>>, sub |-> TRUE]
Variant(v) ==
  CASE v = "Fa" -> VR("func", "a", "-", "-")        [] v = "Fu" -> VR("func", "u", "-", "-")
    [] v = "Fn" -> VR("func", "n", "-", "-")        [] v = "Fm" -> VR("func", "m", "-", "-")
    [] v = "Ca" -> VR("classmethod", "a", "-", "-") [] v = "Cu" -> VR("classmethod", "u", "-", "-")
    [] v = "Cn" -> VR("classmethod", "n", "-", "-") [] v = "Cm" -> VR("classmethod", "m", "-", "-")
    [] v = "Sa" -> VR("staticmethod", "a", "-", "-") [] v = "Su" -> VR("staticmethod", "u", "-", "-")
    [] v = "Sn" -> VR("staticmethod", "n", "-", "-") [] v = "Sm" -> VR("staticmethod", "m", "-", "-")
    [] v = "Pa"   -> VR("property", "a", "-", "-")  [] v = "Pu"   -> VR("property", "u", "-", "-")
    [] v = "Pn"   -> VR("property", "n", "-", "-")
    [] v = "Paa"  -> VR("property", "a", "a", "-")  [] v = "Pua"  -> VR("property", "u", "a", "-")
    [] v = "Pau"  -> VR("property", "a", "u", "-")  [] v = "Pnn"  -> VR("property", "n", "n", "-")
    [] v = "Paaa" -> VR("property", "a", "a", "a")  [] v = "Puau" -> VR("property", "u", "a", "u")
    [] v = "Puua" -> VR("property", "u", "u", "a")
    [] v = "Fx"   -> VR("func", "x", "-", "-")      [] v = "Cx" -> VR("classmethod", "x", "-", "-")
    [] v = "Cs"   -> VS("classmethod", "a", "-", "-") [] v = "Ss" -> VS("staticmethod", "a", "-", "-")
    [] v = "Dt"   -> VR("data", "-", "-", "-")
    [] v = "none" -> VR("none", "-", "-", "-")

FuncKinds == {"func", "classmethod", "staticmethod", "property"}
ClassKinds == {"nested", "alias"}
Ann(p) == p \in {"a", "n", "x"}
Ctx(p) == p = "x"       \* "x": annotated with typing.Self -- decorable only with the class stack at hand
Ntc(p) == p \in {"n", "m"}

(* ------------------------------------------------------------------------ *)
(* The universe of one behaviour: six class positions, eight member roles,  *)
(* three functions synthesised by @dataclass.                               *)
(*   class 1 Base          role 1 Base.a     role 2 Base.a2                 *)
(*   class 2 Derived(Base) role 3 Derived.b  role 4 Derived.a (override)    *)
(*   class 3 Derived.Inner role 5 .c         class 4 Derived.Inner.Deep .d  *)
(*   class 5 Aux (.m)      class 6 DerivedAux (.m)   -- foreign, top level  *)
(* function ids: the function parts that exist, numbered densely in role    *)
(* order; wrappers and the functions synthesised by @dataclass are appended *)
(* ------------------------------------------------------------------------ *)
NRoles == 8
RoleVar(w, r) ==
  CASE r = 1 -> w.vb [] r = 2 -> w.vb2 [] r = 3 -> w.vd [] r = 4 -> w.vo [] r = 5 -> w.vi [] r = 6 -> w.ve
    [] r = 7 -> (IF w.al = "Aux" THEN "Fa" ELSE "none")
    [] r = 8 -> (IF w.al = "DerivedAux" THEN "Fa" ELSE "none")

Cell(ann, ntc, ctx, wraps, by, meta) ==
  [ann |-> ann, ntc |-> ntc, ctx |-> ctx, wraps |-> wraps, by |-> by, meta |-> meta]

Letter(w, q) == Variant(RoleVar(w, q[1])).parts[q[2]]
UsedParts(w) == { q \in (1..NRoles) \X (1..3) : Letter(w, q) # "-" }
FuncId(w, r, p) == Cardinality({ q \in UsedParts(w) : q[1] < r \/ (q[1] = r /\ q[2] <= p) })
InitHeap(w) ==
  [j \in 1..Cardinality(UsedParts(w)) |->
     LET q == CHOOSE q \in UsedParts(w) : FuncId(w, q[1], q[2]) = j
     IN Cell(Ann(Letter(w, q)), Ntc(Letter(w, q)), Ctx(Letter(w, q)), 0, "-", j)]

Opt(v, s) == IF v = "none" THEN <<>> ELSE <<s>>
MkSlot(w, name, v, r) ==
  [name |-> name, kind |-> Variant(v).kind,
   parts |-> [p \in 1..3 |-> IF Variant(v).parts[p] = "-" THEN 0 ELSE FuncId(w, r, p)], cls |-> 0,
   sub |-> Variant(v).sub]
ClsSlot(name, kind, c) == [name |-> name, kind |-> kind, parts |-> <<0, 0, 0>>, cls |-> c, sub |-> FALSE]
DataSlot(name) == ClsSlot(name, "data", 0)
\* meta: the flavour of the class' metaclass ("type": type(cls) is type; anything else: a subclass of type)
Class(qn, bases, owner, present, meta, slots) ==
  [qn |-> qn, bases |-> bases, owner |-> owner, present |-> present, meta |-> meta, slots |-> slots]
AliasTarget(al) == CASE al = "Aux" -> 5 [] al = "DerivedAux" -> 6 [] al = "Base" -> 1 [] al = "Self" -> 2 [] OTHER -> 0

Classes(w) == <<
  Class(<<"Base">>, <<>>, 0, TRUE, w.mb,
        Opt(w.vb, MkSlot(w, "a", w.vb, 1)) \o Opt(w.vb2, MkSlot(w, "a2", w.vb2, 2))
        \o (IF w.dc = "B" THEN <<DataSlot("fld")>> ELSE <<>>)),
  Class(<<"Derived">>, <<1>>, 0, TRUE, w.mb,      \* the metaclass is inherited
        Opt(w.vd, MkSlot(w, "b", w.vd, 3)) \o Opt(w.vo, MkSlot(w, "a", w.vo, 4))
        \o (IF w.vi # "none" THEN <<ClsSlot("Inner", "nested", 3)>> ELSE <<>>)
        \o (IF w.dc = "D" THEN <<DataSlot("fld")>> ELSE <<>>)
        \* last: "Self" can only be assigned once the class exists (Derived.ref = Derived)
        \o (IF w.al # "none" THEN <<ClsSlot("ref", "alias", AliasTarget(w.al))>> ELSE <<>>)),
  Class(<<"Derived", ".", "Inner">>, <<>>, 2, w.vi # "none", w.mi,
        Opt(w.vi, MkSlot(w, "c", w.vi, 5))
        \o (IF w.ve # "none" THEN <<ClsSlot("Deep", "nested", 4)>> ELSE <<>>)),
  Class(<<"Derived", ".", "Inner", ".", "Deep">>, <<>>, 3, w.vi # "none" /\ w.ve # "none", w.me,
        Opt(w.ve, MkSlot(w, "d", w.ve, 6))),
  Class(<<"Aux">>, <<>>, 0, w.al = "Aux", "type", IF w.al = "Aux" THEN <<MkSlot(w, "m", "Fa", 7)>> ELSE <<>>),
  Class(<<"Derived", "Aux">>, <<>>, 0, w.al = "DerivedAux", "type",
        IF w.al = "DerivedAux" THEN <<MkSlot(w, "m", "Fa", 8)>> ELSE <<>>) >>
NClasses == 6

Universes(g) ==
  { w \in [vb : g.VB, vb2 : g.VB2, vd : g.VD, vo : g.VO, vi : g.VI, ve : g.VDeep, mb : g.MB, mi : g.MI, me : g.ME,
            al : g.Aliases, dc : g.DCs] :
      /\ (w.ve # "none" => w.vi # "none" /\ w.mi # "enum")      \* (a class in an Enum body would become a member)
      /\ (w.vi = "none" => w.mi = "type") /\ (w.ve = "none" => w.me = "type")
      /\ (w.dc # "none" => w.mb = "type") }

Group(name, vb, vb2, vd, vo, vi, vdeep, mb, mi, me, al, dcs, orders, confs, free, maxops) ==
  [name |-> name, VB |-> vb, VB2 |-> vb2, VD |-> vd, VO |-> vo, VI |-> vi, VDeep |-> vdeep,
   MB |-> mb, MI |-> mi, ME |-> me, Aliases |-> al,
   DCs |-> dcs, Orders |-> orders, Confs |-> confs, Free |-> free, MaxOps |-> maxops]
\* the stand-alone configuration ClassDecor.cfg (also the configuration of the spec mutants)
DefaultGroups ==
  { Group("default", {"Fa"}, {"none"}, {"Fa", "Ca", "Fu", "Cs", "Ss", "Fx"}, {"none"}, {"none", "Sa"}, {"none"},
          {"type"}, {"type", "enum"}, {"type"},
          {"none", "Aux", "DerivedAux", "Self"}, {"none"}, {"single", "memberclass"},
          {"D", "N", "W"}, FALSE, 2) }

(* ------------------------------------------------------------------------ *)
(* Operations of a scenario                                                 *)
(*   C   beartype(conf=k)(cls)                                              *)
(*   M   cls.name = beartype(conf=k)(cls.__dict__[name])      (slot i)      *)
(*   DC  cls = dataclasses.dataclass(cls)                                   *)
(* ------------------------------------------------------------------------ *)
OpC(c, k) == [t |-> "C", c |-> c, i |-> 0, k |-> k]
OpM(c, i, k) == [t |-> "M", c |-> c, i |-> i, k |-> k]
OpDC(c) == [t |-> "DC", c |-> c, i |-> 0, k |-> "-"]

\* once the O0 strategy has marked callables with @no_type_check, what a later non-O0
\* decoration does is decided by that mark, an implementation detail C13 does not speak
\* about: scenarios keep O0 last
ConfPairsOf(Confs) == { p \in Confs \X Confs : p[1] = "O0" => p[2] = "O0" }
DcClass(w) == CASE w.dc = "B" -> 1 [] w.dc = "D" -> 2 [] OTHER -> 0
\* a slot that a scenario may decorate on its own, without its class: a member whose hints need the
\* class (typing.Self) cannot be (beartype raises BeartypeDecorHintPep673Exception, by design)
HasFuncSlot(w, c, i) ==
  /\ i <= Len(Classes(w)[c].slots) /\ Classes(w)[c].slots[i].kind \in FuncKinds
  /\ \A p \in 1..3 : LET f == Classes(w)[c].slots[i].parts[p] IN IF f = 0 THEN TRUE ELSE ~InitHeap(w)[f].ctx

Scripts(g, w) ==
  LET S(name, set) == IF name \in g.Orders THEN set ELSE {}
      Confs == g.Confs
      ConfPairs == ConfPairsOf(g.Confs)
      x == DcClass(w)
  IN  S("single",       { <<OpC(2, k)>> : k \in Confs })
 \cup S("baseonly",     { <<OpC(1, k)>> : k \in Confs })
 \cup S("basefirst",    { <<OpC(1, p[1]), OpC(2, p[2])>> : p \in ConfPairs })
 \cup S("derivedfirst", { <<OpC(2, p[1]), OpC(1, p[2])>> : p \in ConfPairs })
 \cup S("twice",        { <<OpC(2, p[1]), OpC(2, p[2])>> : p \in ConfPairs })
 \cup S("memberclass",  IF HasFuncSlot(w, 2, 1) THEN { <<OpM(2, 1, p[1]), OpC(2, p[2])>> : p \in ConfPairs } ELSE {})
 \cup S("classmember",  IF HasFuncSlot(w, 2, 1) THEN { <<OpC(2, p[1]), OpM(2, 1, p[2])>> : p \in ConfPairs } ELSE {})
 \cup S("membertwice",  IF HasFuncSlot(w, 2, 1) THEN { <<OpM(2, 1, p[1]), OpM(2, 1, p[2])>> : p \in ConfPairs } ELSE {})
 \cup S("basemember",   IF HasFuncSlot(w, 1, 1) THEN { <<OpM(1, 1, p[1]), OpC(2, p[2]), OpC(1, p[2])>> : p \in ConfPairs } ELSE {})
 \cup S("innerfirst",   IF w.vi # "none" THEN { <<OpC(3, p[1]), OpC(2, p[2])>> : p \in ConfPairs } ELSE {})
 \cup S("outerfirst",   IF w.vi # "none" THEN { <<OpC(2, p[1]), OpC(3, p[2])>> : p \in ConfPairs } ELSE {})
 \cup S("dcbefore",     IF x # 0 THEN { <<OpDC(x), OpC(x, k)>> : k \in Confs }
                                      \cup { <<OpDC(x), OpC(1, k), OpC(2, k)>> : k \in Confs } ELSE {})
 \cup S("dcafter",      IF x # 0 THEN { <<OpC(x, k), OpDC(x)>> : k \in Confs }
                                      \cup { <<OpC(2, k), OpC(1, k), OpDC(x)>> : k \in Confs } ELSE {})

VARIABLES grp,     \* the group this behaviour belongs to (constant along a behaviour)
          u,       \* the universe descriptor (constant along a behaviour)
          cls,     \* class table; cls[c].slots is the part of cls.__dict__ that is modelled
          fn,      \* heap of function objects (cells); index = identity
          mark,    \* is_beartyped per class
          stack,   \* activations of beartype_type: [c, i, k]; i = 0: mark not tested yet
          ret,     \* what the last top-level decoration returned
          hist,    \* top-level operations so far
          prog,    \* scripted operations still to run
          pre,     \* snapshot [cls, fn, mark] taken when the current operation began
          log      \* beartype_func calls of the current operation: [f, out, k]
vars == <<grp, u, cls, fn, mark, stack, ret, hist, prog, pre, log>>

Snap == [cls |-> cls, fn |-> fn, mark |-> mark]
NoRet == [t |-> "none", c |-> 0, i |-> 0, same |-> <<TRUE, TRUE, TRUE>>, obj |-> "unspecified"]
RetCls(c) == [t |-> "cls", c |-> c, i |-> 0, same |-> <<TRUE, TRUE, TRUE>>, obj |-> "same"]
Raised == [t |-> "raise", c |-> 0, i |-> 0, same |-> <<TRUE, TRUE, TRUE>>, obj |-> "unspecified"]
MaxDepth == 6      \* activations of beartype_type after which the model says "RecursionError"

Init ==
  /\ grp \in Groups
  /\ u \in Universes(grp)
  /\ cls = Classes(u)
  /\ fn = InitHeap(u)
  /\ mark = [c \in 1..NClasses |-> FALSE]
  /\ stack = <<>> /\ ret = NoRet /\ hist = <<>> /\ log = <<>>
  /\ prog \in (IF grp.Free THEN {<<>>} ELSE Scripts(grp, u))
  /\ pre = Snap

(* ------------------------------------------------------------------------ *)
(* beartype_func(func, conf)                                                *)
(* ------------------------------------------------------------------------ *)
IsWrapper(c) == c.wraps # 0
Unbeartypeable(c) ==            \* is_func_unbeartypeable (python -O never gets here)
  \/ (~c.ann /\ Mutant # "wrapunann")
  \/ c.ntc
  \/ (IsWrapper(c) /\ Mutant # "doublewrap")      \* hasattr(func, '__beartype_wrapper')
  \/ Mutant = "nowrap"

\* route "class": called by beartype_type with cls_stack; "bare": beartype(member) without a class.
\* Hints that need the class cannot be resolved without the stack; with a non-fatal configuration the
\* exception is turned into a warning and the callable comes back as it was.
CtxLost(c, k, route) == c.ctx /\ (route = "bare" \/ (Mutant = "ctxdropped" /\ k = "W"))
DecorFunc(h, f, k, route) ==
  LET h1 == IF k = "O0" THEN [h EXCEPT ![f].ntc = TRUE] ELSE h     \* no_type_check(func) marks the callable
      c == h1[f]
  IN IF Unbeartypeable(c) \/ CtxLost(c, k, route) THEN [fn |-> h1, out |-> f]
     ELSE [fn |-> Append(h1, Cell(c.ann, FALSE, c.ctx, f, k,
                                  IF Mutant = "nometa" THEN 0 ELSE c.meta)),   \* update_wrapper
           out |-> Len(h1) + 1]

\* the function parts of one descriptor, in the order the code decorates them
DecorParts(h, parts, k, route) ==
  LET d1 == IF parts[1] = 0 THEN [fn |-> h, out |-> 0] ELSE DecorFunc(h, parts[1], k, route)
      d2 == IF parts[2] = 0 THEN [fn |-> d1.fn, out |-> 0] ELSE DecorFunc(d1.fn, parts[2], k, route)
      d3 == IF parts[3] = 0 THEN [fn |-> d2.fn, out |-> 0] ELSE DecorFunc(d2.fn, parts[3], k, route)
  IN [fn |-> d3.fn, parts |-> <<d1.out, d2.out, d3.out>>]

LogOf(parts, outs, k) ==
  LET E(p) == IF parts[p] = 0 THEN <<>> ELSE <<[f |-> parts[p], out |-> outs[p], k |-> k]>>
  IN E(1) \o E(2) \o E(3)

\* beartype_nontype dispatches on the NAME of the exact type (_decornontypemap.py).  With SubRule =
\* "exact" (0.23.0) an instance of a classmethod subclass falls through to "not callable(obj): raise
\* BeartypeDecorWrappeeException", an instance of a staticmethod subclass is callable and handled as a
\* pseudo-callable: what comes back is a plain function
Uncallable(m) == SubRule = "exact" /\ m.sub /\ m.kind = "classmethod"
Pseudofunc(m) == SubRule = "exact" /\ m.sub /\ m.kind = "staticmethod"
\* beartype_nontype on the value of a function-like slot: the new slot and heap
DecorSlot(h, m, k, route) ==
  LET d == DecorParts(h, m.parts, k, route)
  IN [fn |-> d.fn,
      slot |-> [m EXCEPT !.parts = d.parts,
                         !.kind = IF (Mutant = "cm2func" /\ m.kind = "classmethod") \/ Pseudofunc(m) THEN "func" ELSE m.kind,
                         !.sub = IF Pseudofunc(m) THEN FALSE ELSE m.sub],
      log |-> LogOf(m.parts, d.parts, k)]
\* the member filter of beartype_type: isinstance(attr_value, TYPES_BEARTYPEABLE).  The mutant tests
\* attr_value.__class__ in TYPES_BEARTYPEABLE: a class whose metaclass is not exactly type, or a
\* descriptor of a subclass type, is then no member to decorate
TypeOk(m) ==
  \/ Mutant # "exacttype"
  \/ (m.kind \in {"nested", "alias"} /\ cls[m.cls].meta = "type")
  \/ (m.kind \notin {"nested", "alias"} /\ ~m.sub)

(* ------------------------------------------------------------------------ *)
(* qualname test of beartype_type for class-valued attributes               *)
(* ------------------------------------------------------------------------ *)
StartsWith(a, b) == Len(a) >= Len(b) /\ SubSeq(a, 1, Len(b)) = b
Descends(inner, outer) ==
  CASE Mutant = "alias" -> TRUE
    [] Rule = "prefix" -> StartsWith(cls[inner].qn, cls[outer].qn)
    [] OTHER -> StartsWith(cls[inner].qn, cls[outer].qn \o <<".">>)

(* ------------------------------------------------------------------------ *)
(* Top-level operations                                                     *)
(* ------------------------------------------------------------------------ *)
Quiet == stack = <<>>
Present(c) == cls[c].present
AllOps ==
  { OpC(c, k) : c \in {c \in 1..NClasses : Present(c)}, k \in grp.Confs }
  \cup { OpM(c, i, k) : c \in {1, 2}, i \in {1, 2}, k \in grp.Confs }
Schedulable(op) ==
  IF grp.Free
  THEN /\ Len(hist) < grp.MaxOps /\ op \in AllOps
       /\ (op.t = "M" => /\ op.i <= Len(cls[op.c].slots) /\ cls[op.c].slots[op.i].kind \in FuncKinds
                         /\ \A p \in 1..3 : LET f == cls[op.c].slots[op.i].parts[p] IN IF f = 0 THEN TRUE ELSE ~fn[f].ctx)
                            \* (IF, not \/: inside an action TLC explores both disjuncts)
       /\ (hist # <<>> /\ hist[Len(hist)].k = "O0" => op.k = "O0")
  ELSE prog # <<>> /\ op = Head(prog)
Advance == prog' = IF grp.Free THEN prog ELSE Tail(prog)

BeginClass(op) ==
  /\ Quiet /\ op.t = "C" /\ Schedulable(op) /\ Advance
  /\ pre' = Snap /\ hist' = Append(hist, op) /\ log' = <<>>
  /\ IF Optimized
     THEN stack' = <<>> /\ ret' = RetCls(op.c)            \* decormain: "return obj"
     ELSE stack' = <<[c |-> op.c, i |-> 0, k |-> op.k]>> /\ ret' = NoRet
  /\ UNCHANGED <<grp, u, cls, fn, mark>>

BeginMember(op) ==
  /\ Quiet /\ op.t = "M" /\ Schedulable(op) /\ Advance
  /\ pre' = Snap /\ hist' = Append(hist, op)
  /\ LET m == cls[op.c].slots[op.i] IN
     IF Optimized
     THEN /\ UNCHANGED <<cls, fn>> /\ log' = <<>>
          /\ ret' = [t |-> "slot", c |-> op.c, i |-> op.i, same |-> <<TRUE, TRUE, TRUE>>, obj |-> "same"]
     ELSE IF Uncallable(m)
     THEN /\ UNCHANGED <<cls, fn>> /\ log' = <<>> /\ ret' = Raised
     ELSE LET d == DecorSlot(fn, m, op.k, "bare") IN
          /\ fn' = d.fn /\ log' = d.log
          /\ cls' = [cls EXCEPT ![op.c].slots[op.i] = d.slot]
          /\ ret' = [t |-> "slot", c |-> op.c, i |-> op.i,
                     same |-> [p \in 1..3 |-> d.slot.parts[p] = m.parts[p]],
                     \* a plain function that is not wrapped is returned itself; descriptors are
                     \* rebuilt (documented for property, observed for classmethod/staticmethod)
                     obj |-> IF m.kind = "func" /\ d.slot.parts[1] = m.parts[1] THEN "same" ELSE "unspecified"]
  /\ UNCHANGED <<grp, u, mark, stack>>

\* dataclasses.dataclass(cls): synthesises __init__ (annotated with the field types),
\* __repr__ and __eq__ (unannotated) into the class' own namespace
BeginDataclass(op) ==
  /\ Quiet /\ op.t = "DC" /\ Schedulable(op) /\ Advance
  /\ pre' = Snap /\ hist' = Append(hist, op) /\ log' = <<>>
  /\ LET n == Len(fn) IN
     /\ cls' = [cls EXCEPT ![op.c].slots =
                   @ \o << [name |-> "__init__", kind |-> "func", parts |-> <<n + 1, 0, 0>>, cls |-> 0, sub |-> FALSE],
                           [name |-> "__repr__", kind |-> "func", parts |-> <<n + 2, 0, 0>>, cls |-> 0, sub |-> FALSE],
                           [name |-> "__eq__",   kind |-> "func", parts |-> <<n + 3, 0, 0>>, cls |-> 0, sub |-> FALSE] >>]
     /\ fn' = fn \o << Cell(TRUE, FALSE, FALSE, 0, "-", n + 1), Cell(FALSE, FALSE, FALSE, 0, "-", n + 2),
                       Cell(FALSE, FALSE, FALSE, 0, "-", n + 3) >>
  /\ ret' = RetCls(op.c)
  /\ UNCHANGED <<grp, u, mark, stack>>

(* ------------------------------------------------------------------------ *)
(* beartype_type, one action per control point                              *)
(* ------------------------------------------------------------------------ *)
Top == stack[Len(stack)]
Popped == SubSeq(stack, 1, Len(stack) - 1)
Return(c) == ret' = IF Len(stack) = 1 THEN RetCls(c) ELSE ret

\* "if get_type_attr_cached_or_sentinel(cls, 'is_beartyped') is True: return cls"
CheckMarkHit ==
  /\ stack # <<>> /\ Top.i = 0 /\ mark[Top.c]
  /\ stack' = Popped /\ Return(Top.c)
  /\ UNCHANGED <<grp, u, cls, fn, mark, hist, prog, pre, log>>

CheckMarkMiss ==
  /\ stack # <<>> /\ Top.i = 0 /\ ~mark[Top.c]
  /\ stack' = IF Mutant = "inherited" /\ cls[Top.c].bases # <<>>
              THEN Popped \o <<[Top EXCEPT !.i = 1]>> \o <<[c |-> cls[Top.c].bases[1], i |-> 0, k |-> Top.k]>>
              ELSE Popped \o <<[Top EXCEPT !.i = 1]>>
  /\ UNCHANGED <<grp, u, cls, fn, mark, ret, hist, prog, pre, log>>

AtMember == stack # <<>> /\ Top.i >= 1 /\ Top.i <= Len(cls[Top.c].slots)
Member == cls[Top.c].slots[Top.i]
Skip == stack' = Popped \o <<[Top EXCEPT !.i = @ + 1]>>

\* FunctionType, classmethod, staticmethod, property: beartype_object(attr_value, conf, cls_stack);
\* "if attr_value_beartyped is not attr_value: set_type_attr(cls, attr_name, ...)"
WalkFuncLike(kinds) ==
  /\ AtMember /\ Member.kind \in kinds /\ TypeOk(Member) /\ ~Uncallable(Member)
  /\ LET d == DecorSlot(fn, Member, Top.k, "class") IN
     /\ fn' = d.fn /\ log' = log \o d.log
     /\ cls' = [cls EXCEPT ![Top.c].slots[Top.i] = d.slot]
  /\ Skip
  /\ UNCHANGED <<grp, u, mark, ret, hist, prog, pre>>
WalkFunc == WalkFuncLike({"func"})
WalkDescriptor == WalkFuncLike({"classmethod", "staticmethod"})
WalkProperty == WalkFuncLike({"property"})

\* only reachable with SubRule = "exact": the exception of beartype_nontype aborts the whole decoration
WalkRaises ==
  /\ AtMember /\ Member.kind \in FuncKinds /\ TypeOk(Member) /\ Uncallable(Member)
  /\ stack' = <<>> /\ ret' = Raised
  /\ UNCHANGED <<grp, u, cls, fn, mark, hist, prog, pre, log>>

\* only reachable with Mutant = "exacttype"
WalkNotBeartypeable ==
  /\ AtMember /\ Member.kind # "data" /\ ~TypeOk(Member)
  /\ Skip
  /\ UNCHANGED <<grp, u, cls, fn, mark, ret, hist, prog, pre, log>>

\* a class-valued attribute whose qualname passes the test: recursive beartype_type
WalkClassTaken ==
  /\ AtMember /\ Member.kind \in ClassKinds /\ TypeOk(Member) /\ Descends(Member.cls, Top.c) /\ Len(stack) <= MaxDepth
  /\ stack' = Popped \o <<[Top EXCEPT !.i = @ + 1]>> \o <<[c |-> Member.cls, i |-> 0, k |-> Top.k]>>
  /\ UNCHANGED <<grp, u, cls, fn, mark, ret, hist, prog, pre, log>>

\* only reachable with Rule = "prefix" (or the alias mutant): a class that references itself passes
\* the qualname test, is not yet marked, and is walked again and again: RecursionError
RecursionOverflow ==
  /\ AtMember /\ Member.kind \in ClassKinds /\ TypeOk(Member) /\ Descends(Member.cls, Top.c) /\ Len(stack) > MaxDepth
  /\ stack' = <<>> /\ ret' = Raised
  /\ UNCHANGED <<grp, u, cls, fn, mark, hist, prog, pre, log>>

WalkClassSkipped ==
  /\ AtMember /\ Member.kind \in ClassKinds /\ TypeOk(Member) /\ ~Descends(Member.cls, Top.c)
  /\ Skip
  /\ UNCHANGED <<grp, u, cls, fn, mark, ret, hist, prog, pre, log>>

\* not an instance of TYPES_BEARTYPEABLE
WalkData ==
  /\ AtMember /\ Member.kind = "data"
  /\ Skip
  /\ UNCHANGED <<grp, u, cls, fn, mark, ret, hist, prog, pre, log>>

\* "set_type_attr_cached(cls, 'is_beartyped', True); return cls"
SetMark ==
  /\ stack # <<>> /\ Top.i = Len(cls[Top.c].slots) + 1
  /\ mark' = [mark EXCEPT ![Top.c] = TRUE]
  /\ stack' = Popped /\ Return(Top.c)
  /\ UNCHANGED <<grp, u, cls, fn, hist, prog, pre, log>>

Candidates == IF grp.Free THEN AllOps ELSE IF prog # <<>> THEN {Head(prog)} ELSE {}
DecorateClass == \E op \in Candidates : BeginClass(op)
DecorateMember == \E op \in Candidates : BeginMember(op)
MakeDataclass == \E op \in Candidates : BeginDataclass(op)
Next ==
  \/ DecorateClass \/ DecorateMember \/ MakeDataclass
  \/ CheckMarkHit \/ CheckMarkMiss
  \/ WalkFunc \/ WalkDescriptor \/ WalkProperty \/ WalkClassTaken \/ WalkClassSkipped \/ WalkData
  \/ RecursionOverflow \/ WalkRaises \/ WalkNotBeartypeable
  \/ SetMark

Spec == Init /\ [][Next]_vars

(* ======================================================================== *)
(* Declarative side                                                         *)
(* ======================================================================== *)
RECURSIVE Origin(_, _), Depth(_, _)
Origin(h, f) == IF h[f].wraps = 0 THEN f ELSE Origin(h, h[f].wraps)
Depth(h, f) == IF h[f].wraps = 0 THEN 0 ELSE 1 + Depth(h, h[f].wraps)

\* what C13 demands of decorating ONE callable: the identity in the documented no-op cases,
\* otherwise a fresh wrapper of that callable carrying its metadata
NoOpCase(c, k) == Optimized \/ ~c.ann \/ c.ntc \/ k = "O0" \/ IsWrapper(c)
WantFunc(h, f, k) ==
  LET h1 == IF k = "O0" /\ ~Optimized THEN [h EXCEPT ![f].ntc = TRUE] ELSE h
  IN IF NoOpCase(h[f], k) THEN [fn |-> h1, out |-> f]
     ELSE [fn |-> Append(h1, Cell(h[f].ann, FALSE, h[f].ctx, f, k, h[f].meta)), out |-> Len(h1) + 1]
WantParts(h, parts, k) ==
  LET d1 == IF parts[1] = 0 THEN [fn |-> h, out |-> 0] ELSE WantFunc(h, parts[1], k)
      d2 == IF parts[2] = 0 THEN [fn |-> d1.fn, out |-> 0] ELSE WantFunc(d1.fn, parts[2], k)
      d3 == IF parts[3] = 0 THEN [fn |-> d2.fn, out |-> 0] ELSE WantFunc(d2.fn, parts[3], k)
  IN [fn |-> d3.fn, parts |-> <<d1.out, d2.out, d3.out>>]

\* (a member whose hints need the class -- typing.Self -- is decorated "on behalf of the class", with the
\* class stack at hand: it is wrapped and checked like any other annotated member, under every
\* configuration, the non-fatal ones included)
\* route B: decorate by hand each function-like member the class itself defines, recursively
\* for the classes nested in it (lexical ownership); an already decorated class is unchanged
RECURSIVE WantClass(_, _, _), WantMembers(_, _, _, _)
WantClass(s, c, k) ==
  IF Optimized \/ s.mark[c] THEN s
  ELSE LET s1 == TLCEval(WantMembers(s, c, k, 1)) IN [s1 EXCEPT !.mark[c] = TRUE]
WantMembers(s, c, k, i) ==
  IF i > Len(s.cls[c].slots) THEN s
  ELSE LET m == s.cls[c].slots[i]
           s1 == IF m.kind \in FuncKinds
                 THEN LET d == WantParts(s.fn, m.parts, k)
                      IN [s EXCEPT !.fn = d.fn, !.cls[c].slots[i].parts = d.parts]
                 ELSE IF m.kind \in ClassKinds /\ s.cls[m.cls].owner = c
                 THEN WantClass(s, m.cls, k)
                 ELSE s
       IN WantMembers(TLCEval(s1), c, k, i + 1)     \* (TLCEval: evaluate once, not once per reference)

\* identity-free observation of a state
PartObs(h, f) ==
  IF f = 0 THEN [origin |-> 0, depth |-> 0, by |-> "-", meta |-> 0, wrapped |-> 0]
  ELSE [origin |-> Origin(h, f), depth |-> Depth(h, f), by |-> h[f].by, meta |-> h[f].meta,
        wrapped |-> h[f].wraps]          \* __wrapped__ (0: none)
SlotObs(h, m) == [name |-> m.name, kind |-> m.kind, sub |-> m.sub, cls |-> m.cls, parts |-> [p \in 1..3 |-> PartObs(h, m.parts[p])]]
Proj(s) == [c \in 1..NClasses |->
              [mark |-> s.mark[c], slots |-> [i \in 1..Len(s.cls[c].slots) |-> SlotObs(s.fn, s.cls[c].slots[i])]]]

RECURSIVE InScope(_, _)
InScope(x, c) == x = c \/ (cls[x].owner # 0 /\ InScope(cls[x].owner, c))
RECURSIVE Ancestors(_)
Ancestors(c) == IF cls[c].bases = <<>> THEN {} ELSE {cls[c].bases[1]} \cup Ancestors(cls[c].bases[1])
FuncsOf(s, x) == { s.cls[x].slots[i].parts[p] : i \in 1..Len(s.cls[x].slots), p \in 1..3 } \ {0}
Untouched(x) == /\ cls[x] = pre.cls[x] /\ mark[x] = pre.mark[x]
                /\ \A f \in FuncsOf(pre, x) : fn[f] = pre.fn[f]

Done == Quiet /\ hist # <<>>
LastOp == hist[Len(hist)]
Decorating == Done /\ LastOp.t \in {"C", "M"}

\* --- the clauses of C13 ---------------------------------------------------
RouteEq == (Done /\ LastOp.t = "C") => Proj(Snap) = Proj(TLCEval(WantClass(pre, LastOp.c, LastOp.k)))
ReturnsSelf == (Done /\ LastOp.t = "C") => ret = RetCls(LastOp.c)
NestedDecorated ==      \* whatever their metaclass, the classes nested in a decorated class are decorated
  (Done /\ LastOp.t = "C" /\ ~Optimized /\ ret = RetCls(LastOp.c)) =>
     \A x \in 1..NClasses : (cls[x].present /\ InScope(x, LastOp.c)) => mark[x]
InheritedUntouched ==
  Decorating => \A x \in Ancestors(LastOp.c) : ~InScope(x, LastOp.c) => Untouched(x)
AliasUntouched ==
  Decorating => \A x \in 1..NClasses : (~InScope(x, LastOp.c) /\ x \notin Ancestors(LastOp.c)) => Untouched(x)
ClassIdempotent ==
  (Done /\ LastOp.t = "C" /\ pre.mark[LastOp.c]) => Snap = pre
FuncIdempotent ==
  \A e \in {log[j] : j \in 1..Len(log)} : IsWrapper(fn[e.f]) => e.out = e.f
NoopIdentity ==
  \A e \in {log[j] : j \in 1..Len(log)} : (~fn[e.f].ann \/ fn[e.f].ntc \/ e.k = "O0") => e.out = e.f
OptimizedIdentity ==
  (Optimized /\ Done) => /\ cls = pre.cls \/ LastOp.t = "DC"
                         /\ fn = pre.fn \/ LastOp.t = "DC"
                         /\ mark = pre.mark /\ ret.obj = "same"
Wraps ==         \* ... and only in those cases: everything else is really wrapped
  \A e \in {log[j] : j \in 1..Len(log)} :
     (fn[e.f].ann /\ ~fn[e.f].ntc /\ e.k # "O0" /\ ~IsWrapper(fn[e.f])) => e.out # e.f
WrapsOriginal == \* __wrapped__ is the original; name, docstring, signature are the original's
  \A e \in {log[j] : j \in 1..Len(log)} :
     e.out # e.f => /\ fn[e.out].wraps = e.f /\ fn[e.f].wraps = 0
                    /\ fn[e.out].meta = fn[e.f].meta /\ fn[e.out].by = e.k
DepthOne == \A f \in 1..Len(fn) : Depth(fn, f) <= 1
KindKept ==
  Decorating => \A c \in 1..NClasses :
     /\ Len(cls[c].slots) = Len(pre.cls[c].slots)
     /\ \A i \in 1..Len(cls[c].slots) : /\ cls[c].slots[i].kind = pre.cls[c].slots[i].kind
                                        /\ cls[c].slots[i].name = pre.cls[c].slots[i].name
                                        /\ cls[c].slots[i].cls = pre.cls[c].slots[i].cls
                                        /\ cls[c].slots[i].sub = pre.cls[c].slots[i].sub

(* ======================================================================== *)
(* Rows for the binding: everything the driver compares with the real code  *)
(* ======================================================================== *)
RECURSIVE Lookup(_, _)
Lookup(c, n) ==
  LET own == { i \in 1..Len(cls[c].slots) : cls[c].slots[i].name = n }
  IN IF own # {} THEN [c |-> c, i |-> CHOOSE i \in own : TRUE]
     ELSE IF cls[c].bases = <<>> THEN [c |-> 0, i |-> 0] ELSE Lookup(cls[c].bases[1], n)
RECURSIVE Visible(_)
Visible(c) == { cls[c].slots[i].name : i \in 1..Len(cls[c].slots) }
              \cup (IF cls[c].bases = <<>> THEN {} ELSE Visible(cls[c].bases[1]))

\* verdict of calling member n through class c with a bad argument (part 1 of a property: a
\* bad stored value, i.e. a return violation; part 3, a deleter, takes no argument); a good
\* argument always passes
PresentClasses == { c \in 1..NClasses : Present(c) }
VerdictRows ==
  { r \in [c : PresentClasses, n : UNION { Visible(c) : c \in PresentClasses }, p : 1..3] :
      /\ r.n \in Visible(r.c)
      /\ cls[Lookup(r.c, r.n).c].slots[Lookup(r.c, r.n).i].kind \in FuncKinds
      /\ cls[Lookup(r.c, r.n).c].slots[Lookup(r.c, r.n).i].parts[r.p] # 0 }
VerdictOf(r) ==
  LET at == Lookup(r.c, r.n)
      m == cls[at.c].slots[at.i]
      cell == fn[m.parts[r.p]]
  IN [c |-> r.c, n |-> r.n, p |-> r.p, kind |-> m.kind, def |-> at.c, ctx |-> cell.ctx,
      bad |-> IF IsWrapper(cell) /\ r.p # 3
              THEN (IF m.kind = "property" /\ r.p = 1 THEN "R:" ELSE "P:") \o cell.by
              ELSE "ok"]

Row ==
  [group |-> grp.name, u |-> u, hist |-> hist, optimized |-> Optimized,
   classes |-> [c \in 1..NClasses |-> [qn |-> cls[c].qn, bases |-> cls[c].bases, owner |-> cls[c].owner,
                                       present |-> cls[c].present, meta |-> cls[c].meta]],
   funcs |-> { [id |-> j, ann |-> fn[j].ann, ntc |-> fn[j].ntc, ctx |-> fn[j].ctx] : j \in { j \in 1..Len(fn) : fn[j].wraps = 0 } },
   obs |-> Proj(Snap), ret |-> ret,
   verdicts |-> { VerdictOf(r) : r \in VerdictRows }]

EmitRows == (Emit /\ Quiet) => PrintT(ToJson(Row))
=============================================================================
