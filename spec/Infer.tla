-------------------------------- MODULE Infer --------------------------------
(***************************************************************************)
(* C20: object -> inferred hint (beartype.bite.infer_hint), and the round   *)
(* trip through the checker.                                                *)
(*                                                                          *)
(* EXTENDS Semantics: the hint grammar H(k, s, a, m), the object records    *)
(* and the draw are those of Semantics.tla.  This module adds               *)
(*                                                                          *)
(*   X-classes     what the statement of C20 names and Semantics lacks:     *)
(*                 range, OrderedDict views, user Set / MutableSequence /   *)
(*                 MutableMapping implementations, duck-typed (unregistered)*)
(*                 Sequence / Mapping implementations, subclasses of        *)
(*                 builtins, ChainMap, mappingproxy, Enum members,          *)
(*                 callables, protocol-only objects (Sized, Container, ...) *)
(*   Back(n)       BACK-REFERENCES: an item that IS the n-th enclosing      *)
(*                 container (self-referential containers)                  *)
(*   InstX         isinstance over the extended class table                 *)
(*   SatX / ChkX   Semantics' Sat / ChkR extended with an environment of    *)
(*                 enclosing containers (so that back-references resolve)   *)
(*                 and InstX.  MC_Infer checks that they COINCIDE with      *)
(*                 Semantics' Sat / Chk on Semantics' own universe          *)
(*                 (Lemma_Conservative).                                    *)
(*   Fsm*          the collections.abc selection automaton of               *)
(*                 infercollectionsabc.py: nodes, ordered out-edges         *)
(*                 labelled with the required method names, the two lookup  *)
(*                 paths of the code (exact key, else first subset)         *)
(*   Inf           infer_hint: hint / class / callable / scalar shortcuts,  *)
(*                 builtin table, ABC automaton, item rules, recursion      *)
(*                 guard; result in the Semantics hint grammar              *)
(*                                                                          *)
(* Legacy selects the transcription: the set of root causes (RC_* below)    *)
(* that are switched ON.                                                    *)
(*   all six   = FAITHFUL to beartype 0.23.0 as read in beartype/bite/**    *)
(*   {}        = the INTENDED design, under which the property of C20 holds *)
(*               (one named repair per root cause)                          *)
(* SpecMut selects a spec mutant of the intended design (non-vacuity).      *)
(***************************************************************************)
EXTENDS Semantics, SequencesExt

CONSTANTS Legacy, SpecMut

AllLegacy == {"set_node", "unsubscriptable", "meta_dunder", "marker", "duck", "counter_val"}
ASSUME Legacy \subseteq AllLegacy
ASSUME SpecMut \in {"none", "no_guard", "union_drops_last", "abc_too_narrow", "meta_leaf_only"}
\* the named repairs of the intended design (each is one root cause of the faithful one)
RC_SetNode    == "set_node" \in Legacy        \* the Set node of the automaton carries the BUILTIN set as hint factory
RC_Unsubscr   == "unsubscriptable" \in Legacy \* unsubscriptable subclasses of builtin views (odict_keys) are subscripted
RC_MetaDunder == "meta_dunder" \in Legacy     \* dunder methods are looked up on the class object incl. metaclass attributes
RC_Marker     == "marker" \in Legacy          \* the recursion placeholder is an ordinary class that rejects every object
RC_Duck       == "duck" \in Legacy            \* the automaton's ABC is trusted although the object is not an instance of it
RC_CounterVal == "counter_val" \in Legacy     \* a Counter is always inferred as Counter[key] (= values int), whatever its values

(* ---------------------------------------------------------- extended classes *)
XSeqCls  == {"range", "UMSeq", "MyList", "DSeq"}
XCollCls == {"USet", "USetNe", "odict_keys", "odict_values"}
XViewCls == {"odict_items"}
XMapCls  == {"UMMap", "UMapNe", "ChainMap", "mappingproxy", "DMap"}
\* E: member of a plain Enum;  E2: member of an Enum whose metaclass DERIVES from EnumMeta (Django's ChoicesType
\* pattern);  MC1 / MC2: instance of an ordinary class whose metaclass M1 defines __len__ / __iter__ / __contains__
\* and advertises them in __dir__ (MC1), resp. whose metaclass M2 merely INHERITS them from M1 (MC2).  For all four the
\* collection dunders exist on the CLASS OBJECT only: the instances are plain objects, never collections.
XAtomCls == {"E", "E2", "MC1", "MC2", "func", "object", "USized", "UCont", "URev", "UItor"}
XCls == XSeqCls \cup XCollCls \cup XViewCls \cup XMapCls \cup XAtomCls

ParentX(c) == CASE c = "odict_keys" -> "dict_keys" [] c = "odict_values" -> "dict_values"
                [] c = "odict_items" -> "dict_items" [] c = "MyList" -> "list"
                [] c \in XCls -> "object" [] OTHER -> Parent(c)
RECURSIVE SubClsX(_, _)
SubClsX(c, d) == c = d \/ d = "object" \/ (ParentX(c) # "object" /\ SubClsX(ParentX(c), d))

CollAbc == {"Collection", "Iterable", "Container", "Sized"}
AbcsX(c) ==
  CASE c = "range"  -> SeqAbc
    [] c = "UMSeq"  -> SeqAbc \cup {"MutableSequence"}
    [] c = "MyList" -> Abcs("list")
    [] c = "DSeq"   -> CollAbc \cup {"Reversible"}          \* defines every Sequence method, inherits from object
    [] c \in {"USet", "USetNe"} -> CollAbc \cup {"AbstractSet"}
    [] c = "odict_keys"   -> Abcs("dict_keys")
    [] c = "odict_values" -> Abcs("dict_values")
    [] c = "odict_items"  -> Abcs("dict_items")
    [] c = "UMMap"  -> CollAbc \cup {"Mapping", "MutableMapping"}
    [] c = "UMapNe" -> CollAbc \cup {"Mapping"}
    [] c = "ChainMap" -> CollAbc \cup {"Mapping", "MutableMapping"}
    [] c = "mappingproxy" -> CollAbc \cup {"Mapping", "Reversible"}
    [] c = "DMap"   -> CollAbc                               \* defines every Mapping method, inherits from object
    [] c = "func"   -> {"Callable"}
    [] c = "USized" -> {"Sized"}
    [] c = "UCont"  -> {"Container"}
    [] c = "URev"   -> {"Iterable", "Reversible"}
    [] c = "UItor"  -> {"Iterable", "Iterator"}
    [] c \in {"E", "E2", "MC1", "MC2", "object"} -> {}
    [] OTHER -> Abcs(c) \ {"Hashable"}

\* the recursion placeholder BeartypeInferHintContainerRecursion
RecCls == "Recursion"

AllClsX == AtomCls \cup SeqCls \cup CollCls \cup MapCls \cup IterCls \cup ViewCls \cup XCls
AbcNames == {"Sequence", "MutableSequence", "Collection", "Iterable", "Container", "Reversible", "Sized", "AbstractSet",
             "MutableSet", "KeysView", "ValuesView", "ItemsView", "Mapping", "MutableMapping", "Iterator", "Generator",
             "Callable"}
\* isinstance as a table, evaluated once: class -> every class / ABC name its instances are instances of
InstTab == TLCEval([c \in AllClsX |-> { d \in AllClsX \cup AbcNames : SubClsX(c, d) \/ d \in AbcsX(c) }])
\* isinstance(x, c), c a concrete class or an ABC name
InstX(x, c) ==
  IF c = "object" THEN TRUE
  ELSE IF c = RecCls THEN ~RC_Marker          \* intended: the placeholder accepts everything
  ELSE IF x.k = "type" THEN c \in {"type", "Callable"}
  ELSE c \in InstTab[x.cls]

(* ------------------------------------------------------------ back-references *)
\* Back(n): this item IS the n-th enclosing container (1 = the container holding the item)
Back(n) == [k |-> "back", cls |-> "", items |-> <<>>, v |-> n]
\* env = enclosing containers, nearest first
Res(o, env) == IF o.k = "back" THEN [o |-> env[o.v], env |-> SubSeq(env, o.v + 1, Len(env))]
               ELSE [o |-> o, env |-> env]

\* classes whose instances can be made to contain themselves by ordinary Python code
MutableCls == {"list", "deque", "dict", "OrderedDict", "defaultdict"}
SubObjs(x) == IF x.k = "map" THEN [i \in 1..(2 * Len(x.items)) |->
                                      IF i % 2 = 1 THEN x.items[(i + 1) \div 2].key ELSE x.items[i \div 2].val]
              ELSE IF x.k \in {"cont", "iter"} THEN x.items ELSE <<>>
RECURSIVE WellFormed(_, _), HasBack(_), ODepth(_)
\* every back-reference points at an existing enclosing container of a mutable class
WellFormed(x, envc) ==
  IF x.k = "back" THEN x.v <= Len(envc) /\ envc[x.v] \in MutableCls
  ELSE \A i \in DOMAIN SubObjs(x) : WellFormed(SubObjs(x)[i], <<x.cls>> \o envc)
HasBack(x) == x.k = "back" \/ \E i \in DOMAIN SubObjs(x) : HasBack(SubObjs(x)[i])
Max2(a, b) == IF a >= b THEN a ELSE b
RECURSIVE MaxOver(_, _)
MaxOver(s, i) == IF i > Len(s) THEN 0 ELSE Max2(s[i], MaxOver(s, i + 1))
ODepth(x) == IF x.k \in {"cont", "map"} THEN 1 + MaxOver([i \in DOMAIN SubObjs(x) |-> ODepth(SubObjs(x)[i])], 1)
             ELSE 0

(* ----------------------------------------- published meaning / generated check *)
\* only IsInstance[...] validators occur in inferred hints
ValX(v, x) == v.k = "isinst" /\ InstX(x, v.n)

HExc(e) == H("exc", e, <<>>, <<>>)              \* infer_hint raised e instead of returning a hint
HDiverge == H("diverge", "", <<>>, <<>>)        \* infer_hint would recurse forever (mutant only)

RECURSIVE SatX(_, _, _)
SatX(h, x, env) ==
  LET kid(hh, o) == LET c == Res(o, <<x>> \o env) IN SatX(hh, c.o, c.env) IN
  CASE h.k = "any"  -> TRUE
    [] h.k = "cls"  -> InstX(x, h.s)
    [] h.k = "type" -> x.k = "type" /\ SatX(h.a[1], Atom(x.cls, 0), <<>>)
    [] h.k = "union" -> \E i \in DOMAIN h.a : SatX(h.a[i], x, env)
    [] h.k = "tupf" -> /\ InstX(x, "tuple") /\ LenOf(x) = Len(h.a)
                       /\ \A i \in DOMAIN h.a : kid(h.a[i], ItemsOf(x)[i])
    [] h.k \in {"seq", "reit"} -> InstX(x, h.s) /\ \A i \in 1..LenOf(x) : kid(h.a[1], ItemsOf(x)[i])
    [] h.k = "shallow" -> InstX(x, h.s)
    [] h.k = "map"  -> /\ InstX(x, h.s) /\ x.k = "map"
                       /\ \A i \in DOMAIN x.items : kid(h.a[1], x.items[i].key) /\ kid(h.a[2], x.items[i].val)
    [] h.k = "ann"  -> SatX(h.a[1], x, env) /\ \A i \in DOMAIN h.m : ValX(h.m[i], x)
    [] OTHER -> FALSE                                       \* "exc", "diverge": there is no hint

RECURSIVE ChkX(_, _, _, _)
ChkX(h, x, env, r) ==
  IF h.k \in {"exc", "diverge"} THEN FALSE
  ELSE IF Ignorable(h) THEN TRUE ELSE
  LET kid(hh, o) == LET c == Res(o, <<x>> \o env) IN ChkX(hh, c.o, c.env, r) IN
  CASE h.k = "cls"  -> InstX(x, h.s)
    [] h.k = "type" -> x.k = "type" /\ (Ignorable(h.a[1]) \/ ChkX(h.a[1], Atom(x.cls, 0), <<>>, r))
    [] h.k = "union" -> LET ms == FlatMembers(h.a) IN \E i \in DOMAIN ms : ChkX(ms[i], x, env, r)
    [] h.k = "tupf" -> /\ InstX(x, "tuple") /\ LenOf(x) = Len(h.a)
                       /\ \A i \in DOMAIN h.a : Ignorable(h.a[i]) \/ kid(h.a[i], ItemsOf(x)[i])
    [] h.k = "seq"  -> /\ InstX(x, h.s)
                       /\ (Ignorable(h.a[1]) \/ LenOf(x) = 0
                           \/ kid(h.a[1], ItemsOf(x)[Pick(LenOf(x), r, Conf0)]))
    [] h.k = "reit" -> /\ InstX(x, h.s)
                       /\ (Ignorable(h.a[1]) \/ LenOf(x) = 0 \/ kid(h.a[1], ItemsOf(x)[1]))
    [] h.k = "shallow" -> InstX(x, h.s)
    [] h.k = "map"  -> /\ InstX(x, h.s)
                       /\ LET ik == Ignorable(h.a[1])  iv == Ignorable(h.a[2]) IN
                          \/ (ik /\ iv) \/ Len(x.items) = 0
                          \/ /\ (ik \/ kid(h.a[1], x.items[1].key))
                             /\ (iv \/ kid(h.a[2], x.items[1].val))
    [] h.k = "ann"  -> /\ (Ignorable(h.a[1]) \/ ChkX(h.a[1], x, env, r))
                       /\ \A i \in DOMAIN h.m : ValX(h.m[i], x)

(* ------------------------------------------- the collections.abc automaton *)
\* method-name groups = the transition labels of get_finite_state_machine()
Coll3 == {"__contains__", "__iter__", "__len__"}
SeqG  == {"__getitem__", "__reversed__", "count", "index"}
MSeqG == {"__delitem__", "__iadd__", "__setitem__", "append", "clear", "extend", "insert", "pop", "remove", "reverse"}
MapG  == {"__eq__", "__ne__", "__getitem__", "get", "items", "keys", "values"}
MMapG == {"__delitem__", "__setitem__", "clear", "pop", "popitem", "setdefault", "update"}
SetG  == {"__and__", "__eq__", "__ge__", "__gt__", "__le__", "__lt__", "__ne__", "__or__", "__sub__", "__xor__", "isdisjoint"}
MSetG == {"__iand__", "__ior__", "__isub__", "__ixor__", "clear", "pop", "remove"}
GenG  == {"close", "send", "throw"}
AGenG == {"aclose", "asend", "athrow"}
CmpG  == {"__eq__", "__ne__", "__lt__", "__le__", "__gt__", "__ge__"}

Edge(req, to) == [req |-> req, to |-> to]
FsmNodes == {"start", "Container", "Collection", "Sequence", "MutableSequence", "Mapping", "MutableMapping", "Set",
             "MutableSet", "Iterable", "Iterator", "Generator", "Reversible", "Awaitable", "Coroutine",
             "AsyncIterable", "AsyncIterator", "AsyncGenerator", "Sized", "Buffer"}
\* out-edges IN DICTIONARY ORDER (the order matters: the second lookup path takes the first match)
EdgesDef(n) ==
  CASE n = "start" -> << Edge({"__contains__"}, "Container"), Edge({"__iter__"}, "Iterable"),
                         Edge({"__await__"}, "Awaitable"), Edge({"__aiter__"}, "AsyncIterable"),
                         Edge({"__len__"}, "Sized"), Edge({"__buffer__"}, "Buffer") >>
    [] n = "Container"  -> << Edge({"__iter__", "__len__"}, "Collection") >>
    [] n = "Collection" -> << Edge(SeqG, "Sequence"), Edge(MapG, "Mapping"), Edge(SetG, "Set") >>
    [] n = "Sequence"   -> << Edge(MSeqG, "MutableSequence") >>
    [] n = "Mapping"    -> << Edge(MMapG, "MutableMapping") >>
    [] n = "Set"        -> << Edge(MSetG, "MutableSet") >>
    [] n = "Iterable"   -> << Edge({"__next__"}, "Iterator"), Edge({"__reversed__"}, "Reversible") >>
    [] n = "Iterator"   -> << Edge(GenG, "Generator") >>
    [] n = "Awaitable"  -> << Edge(GenG, "Coroutine") >>
    [] n = "AsyncIterable" -> << Edge({"__anext__"}, "AsyncIterator") >>
    [] n = "AsyncIterator" -> << Edge(AGenG, "AsyncGenerator") >>
    [] OTHER -> << >>
EdgesTab == TLCEval([n \in FsmNodes |-> EdgesDef(n)])
Edges(n) == EdgesTab[n]
EdgeNamesTab == TLCEval([n \in FsmNodes |-> UNION { EdgesDef(n)[i].req : i \in DOMAIN EdgesDef(n) }])
EdgeNames(n) == EdgeNamesTab[n]
MinOf(S) == CHOOSE m \in S : \A k \in S : m <= k

\* the two lookup paths of the loop body of _infer_hint_factory_collections_abc
FsmExact(n, M)  == { i \in DOMAIN Edges(n) : Edges(n)[i].req = M \cap EdgeNames(n) }       \* nodes_next.get(frozenset)
FsmSubset(n, M) == { i \in DOMAIN Edges(n) : Edges(n)[i].req \subseteq M }               \* the manual iteration
FsmHalts(n, M)  == (M \cap EdgeNames(n) = {}) \/ (FsmExact(n, M) = {} /\ FsmSubset(n, M) = {})
\* every node the code could move to (one per lookup path); the automaton is deterministic iff this is <= 1 node
FsmCand(n, M) == IF FsmHalts(n, M) THEN {}
                 ELSE { Edges(n)[i].to : i \in FsmExact(n, M) }
                      \cup (IF FsmSubset(n, M) = {} THEN {} ELSE { Edges(n)[MinOf(FsmSubset(n, M))].to })
FsmNext(n, M) == IF FsmExact(n, M) # {} THEN Edges(n)[MinOf(FsmExact(n, M))].to
                 ELSE Edges(n)[MinOf(FsmSubset(n, M))].to
\* the path start .. halting node
RECURSIVE FsmPath(_, _)
FsmPath(n, M) == IF FsmHalts(n, M) THEN <<n>> ELSE <<n>> \o FsmPath(FsmNext(n, M), M)
FsmRun(M) == Last(FsmPath("start", M))
\* methods a class must have for the automaton to be IN node n (declarative: requirement sets along the tree)
RECURSIVE FsmReq(_)
FsmReq(n) == IF n = "start" THEN {}
             ELSE LET p == CHOOSE q \in FsmNodes : \E i \in DOMAIN Edges(q) : Edges(q)[i].to = n
                      i == CHOOSE j \in DOMAIN Edges(p) : Edges(p)[j].to = n
                  IN FsmReq(p) \cup Edges(p)[i].req
\* hint factory carried by a node
Factory(n) == IF n = "Set" THEN (IF RC_SetNode THEN "set" ELSE "AbstractSet") ELSE n

(* ---- methods of the classes that reach the automaton (dir(cls), callable, not an object slot wrapper) ---- *)
\* defined by the class or a base class
InstMethods(c) ==
  CASE c \in {"USeq", "DSeq"} -> Coll3 \cup SeqG
    [] c = "UColl"  -> Coll3
    [] c = "UMap"   -> Coll3 \cup (MapG \ {"__ne__"})
    [] c = "UIter"  -> {"__iter__"}
    [] c = "gen"    -> {"__iter__", "__next__"} \cup GenG
    [] c \in {"dict_items", "odict_items"} -> Coll3 \cup SetG \cup {"__reversed__"}
    [] c = "range"  -> Coll3 \cup SeqG \cup CmpG
    [] c = "USet"   -> Coll3 \cup (SetG \ {"__ne__"})
    [] c = "USetNe" -> Coll3 \cup SetG
    [] c = "UMSeq"  -> Coll3 \cup SeqG \cup MSeqG
    [] c = "UMMap"  -> Coll3 \cup (MapG \ {"__ne__"}) \cup MMapG
    [] c \in {"UMapNe", "DMap"} -> Coll3 \cup MapG
    [] c = "mappingproxy" -> Coll3 \cup MapG \cup CmpG \cup {"__ior__", "__or__", "__reversed__"}
    [] c = "USized" -> {"__len__"}
    [] c = "UCont"  -> {"__contains__"}
    [] c = "URev"   -> {"__iter__", "__reversed__"}
    [] c = "UItor"  -> {"__iter__", "__next__"}
    [] c = "USizedIter" -> {"__iter__", "__next__", "__len__"}
    [] c = "bool"   -> {"__and__", "__or__", "__xor__", "__sub__"} \cup CmpG       \* no start label among them
    [] c = "NoneType" -> CmpG
    [] OTHER -> {}
\* provided by the METACLASS CHAIN only, but listed by dir(cls)  (EnumType.__dir__, M1.__dir__):
\*   MetaOwn: defined by type(cls) itself          MetaInh: inherited by type(cls) from a parent metaclass
EnumMetaG == {"__contains__", "__getitem__", "__iter__", "__len__"}
MetaOwn(c) == CASE c = "E" -> EnumMetaG [] c = "MC1" -> Coll3 [] OTHER -> {}
MetaInh(c) == CASE c = "E2" -> EnumMetaG [] c = "MC2" -> Coll3 [] OTHER -> {}
MetaMethods(c) == MetaOwn(c) \cup MetaInh(c)
\* the methods the automaton runs on: those of the INSTANCES (some class of cls.__mro__ defines them); never a
\* name that only the metaclass chain provides, at whatever depth of that chain.
\* spec mutant "meta_leaf_only": only the names in type(cls).__dict__ are excluded
MethodsOf(c) == InstMethods(c) \cup (IF RC_MetaDunder THEN MetaMethods(c) ELSE {})
                               \cup (IF SpecMut = "meta_leaf_only" THEN MetaInh(c) ELSE {})
\* classes for which the tables above are claimed (checked against the real classes by the driver)
AbcPathCls == {"USeq", "DSeq", "UColl", "UMap", "UIter", "gen", "dict_items", "odict_items", "range", "USet", "USetNe",
               "UMSeq", "UMMap", "UMapNe", "DMap", "mappingproxy", "USized", "UCont", "URev", "UItor", "USizedIter", "E", "E2", "MC1", "MC2", "A", "B",
               "object", "bool", "NoneType"}

\* the automaton's path per class, evaluated once
PathTab == TLCEval([c \in AllClsX |-> FsmPath("start", MethodsOf(c))])

(* ------------------------------------------------------------------ infer_hint *)
HRec == HCls(RecCls)
ObjH == HCls("object")
\* _COLLECTION_BUILTIN_TYPE_TO_HINT_FACTORY, then "a subclass of a builtin collection is its own factory"
BuiltinTable(c) ==
  CASE c \in {"tuple", "list", "frozenset", "set", "deque", "dict", "ChainMap", "Counter"} -> c
    [] c = "dict_keys" -> "KeysView" [] c = "dict_values" -> "ValuesView"
    [] OTHER -> ""
Unsubscriptable(c) == c \in {"odict_keys", "odict_values"}          \* no __class_getitem__
BuiltinFactoryDef(c) ==
  IF BuiltinTable(c) # "" THEN BuiltinTable(c)
  ELSE IF ParentX(c) # "object" /\ BuiltinTable(ParentX(c)) # ""
       THEN (IF Unsubscriptable(c) /\ ~RC_Unsubscr THEN BuiltinTable(ParentX(c)) ELSE c)
  ELSE ""
BuiltinFacTab == TLCEval([c \in AllClsX |-> BuiltinFactoryDef(c)])
BuiltinFactory(c) == BuiltinFacTab[c]
\* factory[child]
Mk1(f, h) == IF h.k \in {"exc", "diverge"} THEN h
             ELSE IF Unsubscriptable(f) THEN HExc("TypeError")       \* type 'odict_keys' is not subscriptable
             ELSE IF f = "MyList" THEN H("shallow", f, <<h>>, <<>>)   \* HintSignPep585BuiltinSubscriptedUnknown: checked as
                                                                      \* isinstance(x, MyList) only, the child is ignored
             ELSE IF f \in {"tuple", "list", "Sequence", "MutableSequence"} THEN HSeq(f, h)
             ELSE HReit(f, h)
IntOnly(h) == h \in {HCls("int"), HCls("bool")}
              \/ (h.k = "union" /\ \A i \in DOMAIN h.a : h.a[i] \in {HCls("int"), HCls("bool")})
Mk2(f, hk, hv) == IF hk.k \in {"exc", "diverge"} THEN hk ELSE IF hv.k \in {"exc", "diverge"} THEN hv
                  ELSE IF f = "Counter"
                       THEN (IF RC_CounterVal \/ IntOnly(hv) THEN HCounter(hk)
                             ELSE HAnn(HMap("dict", hk, hv), <<VInst("Counter")>>))
                       ELSE HMap(f, hk, hv)
\* make_hint_pep484604_union(tuple(set(hints))): one member is that member; an exception anywhere is the outcome
UnionOf(S) == IF \E e \in S : e.k \in {"exc", "diverge"} THEN CHOOSE e \in S : e.k \in {"exc", "diverge"}
              ELSE IF Cardinality(S) = 1 THEN CHOOSE e \in S : TRUE
              ELSE HUnion(SetToSeq(S))
Bubble(hs, h) == IF \E i \in DOMAIN hs : hs[i].k \in {"exc", "diverge"}
                 THEN hs[MinOf({ i \in DOMAIN hs : hs[i].k \in {"exc", "diverge"} })] ELSE h

ScalarCls == {"int", "str", "float", "complex"}        \* BUILTIN_TYPES_SCALAR (bytes is not in the universe)

\* x: the item as stored (possibly a back-reference); d: number of enclosing containers already on the
\* inference stack (= size of __beartype_obj_ids_seen__); st: "On" | "O1"; r: the draw
RECURSIVE Inf(_, _, _, _)
\* infer_hint_collection_items(obj, hint_factory, origin_type): f = factory, isMap = issubclass(origin_type, Mapping)
InfItems(x, f, isMap, d, st, r) ==
  IF LenOf(x) = 0 THEN HCls(f)                           \* "if not obj": the bare factory
  ELSE IF isMap THEN
    LET n  == Len(x.items)
        hk == IF n = 1 \/ st = "O1" THEN Inf(x.items[1].key, d + 1, st, r)
              ELSE UnionOf({ Inf(x.items[i].key, d + 1, st, r) : i \in 1..n })
        hv == IF n = 1 \/ st = "O1" THEN Inf(x.items[1].val, d + 1, st, r)
              ELSE UnionOf({ Inf(x.items[i].val, d + 1, st, r) : i \in 1..n })
    IN IF hk = ObjH /\ hv = ObjH THEN HCls(f) ELSE Mk2(f, hk, hv)
  ELSE
    LET its == ItemsOf(x)   n == Len(its) IN
    IF f = "tuple" /\ d = 0 /\ n <= 10
    THEN LET hs == [i \in 1..n |-> Inf(its[i], 1, st, r)] IN Bubble(hs, HTupF(hs))       \* small ROOT tuple
    ELSE LET hi == IF n = 1 \/ st = "O1"
                   THEN Inf(its[IF InstX(x, "Sequence") THEN Pick(n, r, Conf0) ELSE 1], d + 1, st, r)
                   ELSE UnionOf({ Inf(its[i], d + 1, st, r) :
                                    i \in 1..(IF SpecMut = "union_drops_last" THEN n - 1 ELSE n) })
         IN IF hi = ObjH THEN HCls(f) ELSE Mk1(f, hi)

\* the automaton's verdict for a class.  intended: the deepest node on the path whose ABC the instances really
\* are instances of ("start" = no protocol)
AbcNodeOf(c) ==
  LET path == PathTab[c]
      ok   == { i \in 2..Len(path) : Factory(path[i]) \in InstTab[c] }
  IN IF RC_Duck THEN Last(path) ELSE IF ok = {} THEN "start" ELSE path[CHOOSE i \in ok : \A j \in ok : j <= i]
\* infer_hint_collections_abc: narrowest ABC by the automaton, wrapped in Annotated[..., IsInstance[type(x)]]
InfAbc(x, d, st, r) ==
  LET c    == x.cls
      node == AbcNodeOf(c)
      f    == Factory(IF SpecMut = "abc_too_narrow" /\ node = "Collection" THEN "Sequence" ELSE node)
  IN IF node = "start" THEN HCls(c)                                    \* no protocol: fall back to type(x)
     ELSE LET inner == IF InstX(x, "Collection")
                       THEN InfItems(x, f, f \in {"Mapping", "MutableMapping"}, d, st, r)
                       ELSE HCls(f)
          IN IF inner.k \in {"exc", "diverge"} THEN inner ELSE HAnn(inner, <<VInst(c)>>)

Inf(x, d, st, r) ==
  IF x.k = "back" THEN (IF SpecMut = "no_guard" THEN HDiverge ELSE HRec)   \* id(obj) in seen: warn, placeholder
  ELSE IF x.k = "type" THEN HType(HCls(x.cls))                               \* isinstance(obj, type)
  ELSE IF x.cls = "func" THEN HShallow("Callable")                          \* callable(obj)
  ELSE IF x.cls = "NoneType" THEN HCls("NoneType")                           \* None is a PEP 484 hint: returned as is
  ELSE IF x.cls \in ScalarCls THEN HCls(x.cls)
  ELSE LET bf == BuiltinFactory(x.cls) IN
       IF bf # "" THEN InfItems(x, bf, "Mapping" \in InstTab[x.cls], d, st, r)
       ELSE InfAbc(x, d, st, r)

\* top-level call
Infer(x, st, r) == Inf(x, 0, st, r)

\* mappings inferred through the mapping rule have keys AND values visited; any other mapping only its keys
MapInferred(c) == IF BuiltinFactory(c) # "" THEN "Mapping" \in InstTab[c]
                  ELSE AbcNodeOf(c) \in {"Mapping", "MutableMapping"}
RECURSIVE VisBack(_)
\* a back-reference sits at a position the full (On) inference visits
VisBack(x) == \/ x.k = "back"
              \/ x.k = "cont" /\ \E i \in DOMAIN x.items : VisBack(x.items[i])
              \/ x.k = "map" /\ \E i \in DOMAIN x.items :
                                   VisBack(x.items[i].key) \/ (MapInferred(x.cls) /\ VisBack(x.items[i].val))

RECURSIVE HasNode(_, _), HDepth(_), HasMarker(_)
HasNode(h, k) == h.k = k \/ \E i \in DOMAIN h.a : HasNode(h.a[i], k)
HasMarker(h) == h = HRec \/ \E i \in DOMAIN h.a : HasMarker(h.a[i])
\* container levels of a hint (Annotated and unions are transparent)
HDepth(h) == IF h.k \in {"seq", "reit", "map", "tupf"}
             THEN 1 + MaxOver([i \in DOMAIN h.a |-> HDepth(h.a[i])], 1)
             ELSE IF h.k \in {"union", "ann"} THEN MaxOver([i \in DOMAIN h.a |-> HDepth(h.a[i])], 1)
             ELSE 0
=============================================================================
