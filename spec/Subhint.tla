------------------------------- MODULE Subhint -------------------------------
(***************************************************************************)
(* C19: beartype.door.is_subhint and the TypeHint wrappers.                 *)
(*                                                                          *)
(*  WK / Kids / Origin / ArgsIgn / IgnX   the wrapper projection: what      *)
(*        doormeta + doorclsmap + TypeHint.__init__ derive from a hint      *)
(*  IsSub(F, a, b)   is_subhint as the CODE computes it, one operator per    *)
(*        method of the door classes (doorsuper.is_subhint -> _is_subhint   *)
(*        -> _is_subhint_branch and the overrides in doorpep484604,         *)
(*        doorpep586, doorpep593, doorpep484class, doorpep484585tuple,      *)
(*        doorpep484585callable).  Three-valued: "T", "F", and "X" = the    *)
(*        call raises BeartypeDoorIsSubhintException ("undecidable").       *)
(*  EqH(F, a, b)     TypeHint.__eq__ (the _is_equal overrides)               *)
(*  Erase            the checking-relevant reduct of the hint kinds that    *)
(*        Semantics.tla does not know (NewType, TypeVar, Callable), so that *)
(*        Sat / SatB of Semantics.tla give their denotation                 *)
(*                                                                          *)
(* F is a set of feature flags.  The flags in LegacyFaithful switch on the  *)
(* behaviours of beartype 0.23.0 that break a law of the property (or that  *)
(* the demanded relation must not have); the empty set is the relation the  *)
(* property demands: a sound preorder in which Any is the top element only, *)
(* Literal members are compared by type and value and member by member      *)
(* against the branches of a union, Annotated metahints must be subhints,   *)
(* Callable parameters are contravariant, hints of different arity are      *)
(* incomparable instead of "undecidable".  LegacyFixed is the tree with     *)
(* /verif/proposed_fixes/C19-*.diff applied.  Flags in Mutants are plausible*)
(* wrong designs used as spec mutants (non-vacuity); "no_wrapper_cache" is  *)
(* the spec mutant of the doormeta cache in MC_Subhint.tla.                 *)
(***************************************************************************)
EXTENDS Semantics

(* ------------------------------------------------------------------ flags *)
LegacyFaithful == {
  "any_bottom",          \* doorsuper.is_subhint: "self._hint is Any" => True (Any below everything)
  "lit_untyped_in",      \* doorpep586: "self_arg in other._args" (== only: 1 in (True,))
  "lit_generic_fallback",\* doorpep586: super()._is_subhint(other): generic branch test on ZERO children
  "ann_not_gt",          \* doorpep593: rejects only when the metahint is a STRICT SUPERhint (incomparable passes)
  "call_param_not_gt",   \* doorpep484585callable: rejects only parameters that are STRICT SUPERhints
  "call_args_ign",       \* doorpep484585callable: a branch whose children are all ignorable accepts every callable
  "call_ign",            \* doorpep484585callable.is_ignorable: Callable[..., Any] counts as ignorable (it is not top)
  "arity_raises",        \* doorsuper._is_subhint_branch: differing numbers of children raise "undecidable"
  "tvar_branch_opaque",  \* doorsuper._is_subhint: a TypeVar that is a BRANCH of a union is compared as a whole
  "raw_hash",            \* doorsuper.__hash__: hash of the wrapped hint although __eq__ is semantic
  "kids_not_args"        \* Literal / TypeVar / Callable wrappers: len/iter/[] disagree with .args
}
\* the tree with proposed_fixes/C19-1..4 applied (Any as bottom, the Callable rules, __hash__ and the children
\* of Literal / TypeVar / Callable wrappers are pinned by the upstream tests or are design decisions)
LegacyFixed == LegacyFaithful \ {"lit_untyped_in", "lit_generic_fallback", "ann_not_gt", "arity_raises",
                                    "tvar_branch_opaque"}
Mutants == {"issubclass_swapped", "union_any_for_all", "lit_ignores_member_types", "tuple_zip_short"}
\* spec mutants of the wrapper cache of doormeta (MC_Subhint.tla): "no_wrapper_cache", and "repr_key" = the cache
\* keyed on repr(hint) instead of the hint (repr twins then share one wrapper)

(* ------------------------------------------------ hint kinds beyond Semantics *)
HNew(c)      == H("newtype", c, <<>>, <<>>)           \* NewType("NT_c", c)
HTVar(s, hs) == H("tvar", s, hs, <<>>)                \* s = "free" | "bound" | "constr"
HCall(ps, r) == H("call", "fixed", ps \o <<r>>, <<>>) \* Callable[[p1..pn], r]
HCallAny(r)  == H("call", "ellipsis", <<r>>, <<>>)    \* Callable[..., r]

(* ------------------------------------------------------------- repr twins *)
\* TypeVars, NewTypes and classes have identity: two of them are different hints even when they carry the same
\* name and therefore the same repr().  Named(h, n) gives a TypeVar / NewType the explicit name n (hints built
\* without it have process-unique names); HCls("K:int") and HCls("K:str") are two classes made by one factory.
\* ReprOf(h) is what repr() shows: for named things the name only - their bound / constraints / base are
\* invisible.  Two distinct hints with equal ReprOf are "repr twins".
Named(h, n) == [h EXCEPT !.m = <<Atom("name", n)>>]
IsNamed(h)  == h.k \in {"tvar", "newtype"} /\ h.m # <<>>
RECURSIVE ReprOf(_)
ReprOf(h) ==
  IF IsNamed(h) THEN H(h.k, "", <<>>, h.m)
  ELSE IF h.k = "cls" /\ h.s \in {"K:int", "K:str"} THEN HCls("K")
  ELSE [h EXCEPT !.a = [i \in DOMAIN h.a |-> ReprOf(h.a[i])]]

RECURSIVE HasKindX(_, _)
HasKindX(h, ks) == h.k \in ks \/ \E i \in DOMAIN h.a : HasKindX(h.a[i], ks)
HasAny(h)   == HasKindX(h, {"any"})
\* Sat of Semantics.tla is the full meaning only where the kind has one in the object universe:
\* a Callable[[...], r] has no decidable full meaning, Iterator / Generator are class-only there
SatKnown(h) == ~HasKindX(h, {"call", "shallow"})

\* the reduct whose Sat / SatB is the denotation over the object universe
RECURSIVE Erase(_)
Erase(h) ==
  CASE h.k = "newtype" -> HCls(h.s)
    [] h.k = "tvar" -> (IF h.s = "free" THEN HCls("object")
                        ELSE IF h.s = "bound" THEN Erase(h.a[1])
                        ELSE HUnion([i \in DOMAIN h.a |-> Erase(h.a[i])]))
    [] h.k = "call" -> HCls("type")               \* the only callables of the universe are the class objects
    [] h.k = "cls" /\ h.s = "Callable" -> HCls("type")
    [] OTHER -> [h EXCEPT !.a = [i \in DOMAIN h.a |-> Erase(h.a[i])]]

(* -------------------------------------------------- the wrapper projection *)
\* doorclsmap.get_typehint_subclass
WK(h) ==
  CASE h.k = "any" -> "Any"          [] h.k = "cls" -> "Class"       [] h.k = "newtype" -> "NewType"
    [] h.k = "lit" -> "Literal"      [] h.k = "union" -> "Union"     [] h.k = "tvar" -> "TypeVar"
    [] h.k = "tupf" -> "TupleFixed"  [] h.k = "seq" /\ h.s = "tuple" -> "TupleVariable"
    [] h.k = "ann" -> "Annotated"    [] h.k = "call" -> "Callable"
    [] OTHER -> "Subscripted"        \* list[...], Mapping[...], type[...], Iterator[...], ...
\* isinstance(wrapper of class w, class c)
IsA(w, c) == \/ w = c \/ (w = "NewType" /\ c = "Class") \/ (w = "TypeVar" /\ c = "Union")
             \/ (w = "TupleVariable" /\ c = "Subscripted")

\* _args_wrapped_tuple: the children that len / iter / [] / in expose
Kids(h) ==
  CASE h.k \in {"any", "cls", "newtype", "lit"} -> <<>>
    [] h.k = "union" -> FlatMembers(h.a)
    [] h.k = "tvar" -> (IF h.s = "free" THEN <<HCls("object")>> ELSE h.a)
    [] h.k = "shallow" -> (IF h.s = "Iterator" THEN <<HCls("int")>>
                           ELSE <<HCls("int"), HCls("NoneType"), HCls("NoneType")>>)
    [] h.k = "map" /\ h.s = "Counter" -> <<h.a[1]>>
    [] h.k = "call" -> (IF h.s = "ellipsis" THEN <<HAny, h.a[1]>>
                        ELSE IF Len(h.a) = 1 THEN <<HTupF(<<>>), h.a[1]>> ELSE h.a)
    [] OTHER -> h.a
\* number of entries of the public .args and whether they are the wrapped children
ArgsLen(h) ==
  CASE h.k = "lit" -> Len(h.m)
    [] h.k = "tvar" -> 0
    [] h.k = "call" -> (IF h.s = "ellipsis" THEN 2 ELSE Len(h.a))
    [] OTHER -> Len(Kids(h))
\* do .args and the children exposed by len / iter / [] coincide?  (0.23.0: not for Literal - members are
\* args but no children -, TypeVar - the bound is a child but no arg -, Callable[..., r] and Callable[[], r])
ArgsAreKids(F, h) ==
  IF "kids_not_args" \in F
  THEN ArgsLen(h) = Len(Kids(h)) /\ (h.k = "call" => h.s = "fixed")
  ELSE TRUE

\* _branches
Branches(h) == IF IsA(WK(h), "Union") THEN Kids(h) ELSE <<h>>

\* _origin (as far as issubclass / == on it can influence an answer)
RECURSIVE Origin(_)
Origin(h) ==
  CASE h.k = "cls" -> h.s
    [] h.k = "newtype" -> (IF h.m = <<>> THEN "NT:" ELSE "NTW:") \o h.s     \* every NewType has its own synthetic class
    [] h.k = "any" -> "typing.Any"
    [] h.k = "tupf" -> "tuple"    [] h.k = "type" -> "type"    [] h.k = "items" -> "ItemsView"
    [] h.k \in {"seq", "reit", "quasi", "map", "shallow"} -> h.s
    [] h.k = "call" -> "Callable"
    [] h.k = "ann" -> Origin(h.a[1])
    [] OTHER -> "object"          \* Literal, Union, TypeVar

AbcNames == {"Sequence", "MutableSequence", "AbstractSet", "MutableSet", "Collection", "KeysView", "ValuesView",
             "ItemsView", "Iterable", "Container", "Reversible", "Sized", "Hashable", "Mapping", "MutableMapping",
             "Iterator", "Generator", "Callable"}
CollSup == {"Collection", "Sized", "Iterable", "Container"}
AbcSup(c) ==
  CASE c = "Sequence" -> CollSup \cup {"Reversible"}
    [] c = "MutableSequence" -> CollSup \cup {"Reversible", "Sequence"}
    [] c = "AbstractSet" -> CollSup
    [] c = "MutableSet" -> CollSup \cup {"AbstractSet"}
    [] c = "Collection" -> {"Sized", "Iterable", "Container"}
    [] c = "KeysView" -> CollSup \cup {"AbstractSet"}
    [] c = "ItemsView" -> CollSup \cup {"AbstractSet"}
    [] c = "ValuesView" -> CollSup
    [] c = "Reversible" -> {"Iterable"}
    [] c = "Mapping" -> CollSup
    [] c = "MutableMapping" -> CollSup \cup {"Mapping"}
    [] c = "Iterator" -> {"Iterable"}
    [] c = "Generator" -> {"Iterable", "Iterator"}
    [] OTHER -> {}
\* classes derived from a class of the universe: the synthetic class of a NewType ("NT:c") and the classes
\* K(c) made by one factory (same module and qualified name, hence the same repr(), different bases)
NTBase(c) == CASE c = "NT:int" -> "int" [] c = "NT:str" -> "str" [] c = "NT:A" -> "A"
               [] c = "NTW:int" -> "int" [] c = "NTW:str" -> "str"
               [] c = "K:int" -> "int" [] c = "K:str" -> "str" [] OTHER -> ""
\* issubclass(c, d) on origins
RECURSIVE OSub(_, _)
OSub(c, d) ==
  IF c = d \/ d = "object" THEN TRUE
  ELSE IF NTBase(c) # "" THEN OSub(NTBase(c), d)
  ELSE IF NTBase(d) # "" \/ c = "object" \/ c = "typing.Any" \/ d = "typing.Any" THEN FALSE
  ELSE IF c = "type" THEN d \in {"Callable", "Hashable"}
  ELSE IF c \in AbcNames THEN d \in AbcSup(c)
  ELSE SubCls(c, d) \/ d \in Abcs(c)

\* TypeHint.is_ignorable (sanify_hint_any is HINT_SANE_IGNORABLE; TypeVar and Callable override it)
RECURSIVE IgnX(_, _)
IgnX(F, h) ==
  CASE h.k = "any" -> TRUE
    [] h.k = "cls" -> h.s = "object"
    [] h.k = "union" -> \E i \in DOMAIN h.a : IgnX(F, h.a[i])
    [] h.k = "tvar" -> \A i \in DOMAIN Kids(h) : IgnX(F, Kids(h)[i])
    [] h.k = "call" -> "call_ign" \in F /\ h.s = "ellipsis" /\ IgnX(F, h.a[Len(h.a)])
    [] OTHER -> FALSE
\* _is_args_ignorable
ArgsIgn(F, h) ==
  CASE WK(h) \in {"Any", "Class", "NewType"} -> TRUE
    [] WK(h) \in {"Literal", "Annotated", "TupleFixed"} -> FALSE
    [] WK(h) = "Callable" /\ "call_args_ign" \notin F -> h.s = "ellipsis" /\ IgnX(F, h.a[Len(h.a)])
    [] OTHER -> \A i \in DOMAIN Kids(h) : IgnX(F, Kids(h)[i])

\* the hint sign as far as SubscriptedTypeHint._is_equal compares it
Sign(h) == IF WK(h) \in {"Subscripted", "TupleVariable"} THEN Origin(h) ELSE "sign:" \o WK(h)

(* ----------------------------------------------------- three-valued logic *)
B3(b) == IF b THEN "T" ELSE "F"
\* all(...) / any(...) over a generator, in order: the first element that decides or raises wins
AllV(rs0) == LET rs == TLCEval(rs0) IN
            IF \A i \in DOMAIN rs : rs[i] = "T" THEN "T"
            ELSE rs[CHOOSE i \in DOMAIN rs : rs[i] # "T" /\ \A j \in 1..(i - 1) : rs[j] = "T"]
AnyV(rs0) == LET rs == TLCEval(rs0) IN
            IF \A i \in DOMAIN rs : rs[i] = "F" THEN "F"
            ELSE rs[CHOOSE i \in DOMAIN rs : rs[i] # "F" /\ \A j \in 1..(i - 1) : rs[j] = "F"]
Not3(x) == IF x = "X" THEN "X" ELSE IF x = "T" THEN "F" ELSE "T"

(* ----------------------------------------------------------- is_subhint *)
MemEq(F, m, n) == IF "lit_ignores_member_types" \in F \/ "lit_untyped_in" \in F THEN PyEq(m, n)
                  ELSE m.cls = n.cls /\ PyEq(m, n)

RECURSIVE IsSub(_, _, _), DoSub(_, _, _), Loop(_, _, _), Branch(_, _, _), DefBranch(_, _, _),
          LitSub(_, _, _), EqH(_, _, _), Gt(_, _, _)

\* doorsuper.TypeHint.is_subhint
IsSub(F, a, b) ==
  IF b.k = "any" THEN "T"
  ELSE IF a.k = "any" THEN (IF "any_bottom" \in F \/ IgnX(F, b) THEN "T" ELSE "F")
  ELSE DoSub(F, a, b)

\* _is_subhint: UnionTypeHint (and TypeVarTypeHint), LiteralTypeHint, default
DoSub(F, a, b) ==
  IF IsA(WK(a), "Union")
  THEN LET ks == Kids(a)
           rs == [i \in DOMAIN ks |->
                    IF IsA(WK(b), "Union")
                    THEN AnyV([j \in DOMAIN Kids(b) |-> IsSub(F, ks[i], Kids(b)[j])])
                    ELSE IsSub(F, ks[i], b)] IN
       IF "union_any_for_all" \in F THEN AnyV(rs) ELSE AllV(rs)
  ELSE IF WK(a) = "Literal" THEN LitSub(F, a, b)
  ELSE Loop(F, a, b)

\* doorsuper._is_subhint: some branch of the other hint is Any or accepts this hint
Loop(F, a, b) ==
  LET bs == Branches(b) IN
  AnyV([j \in DOMAIN bs |-> IF bs[j].k = "any" THEN "T"
                            ELSE IF WK(bs[j]) = "TypeVar" /\ "tvar_branch_opaque" \notin F THEN IsSub(F, a, bs[j])
                            ELSE Branch(F, a, bs[j])])

\* doorpep586.LiteralTypeHint._is_subhint
LitSub(F, a, b) ==
  IF WK(b) = "Literal"
  THEN B3(\A i \in DOMAIN a.m : \E j \in DOMAIN b.m : MemEq(F, a.m[i], b.m[j]))
  ELSE IF "lit_generic_fallback" \in F
  THEN LET tys == AllV([i \in DOMAIN a.m |-> IsSub(F, HCls(a.m[i].cls), b)]) IN
       IF tys # "F" THEN tys ELSE Loop(F, a, b)
  ELSE \* demanded: every member is covered by some branch of the other hint
       LET bs == Branches(b) IN
       AllV([i \in DOMAIN a.m |->
               AnyV([j \in DOMAIN bs |->
                       IF bs[j].k = "any" THEN "T"
                       ELSE IF WK(bs[j]) = "Literal"
                            THEN B3(\E n \in DOMAIN bs[j].m : MemEq(F, a.m[i], bs[j].m[n]))
                       ELSE IsSub(F, HCls(a.m[i].cls), bs[j])])])

\* doorsuper.TypeHint._is_subhint_branch (SubscriptedTypeHint, TupleVariableTypeHint; LiteralTypeHint inherits it)
DefBranch(F, a, br) ==
  IF ~(IF "issubclass_swapped" \in F THEN OSub(Origin(br), Origin(a)) ELSE OSub(Origin(a), Origin(br))) THEN "F"
  ELSE IF ArgsIgn(F, br) THEN "T"
  ELSE IF ~IsA(WK(br), WK(a)) THEN "F"
  ELSE IF Len(Kids(a)) # Len(Kids(br)) THEN (IF "arity_raises" \in F THEN "X" ELSE "F")
  ELSE AllV([i \in DOMAIN Kids(a) |-> IsSub(F, Kids(a)[i], Kids(br)[i])])

\* x > y on wrappers: x.is_superhint(y) and x != y
Gt(F, x, y) ==
  LET s == IsSub(F, y, x) IN
  IF s # "T" THEN s ELSE Not3(EqH(F, x, y))

Branch(F, a, br) ==
  CASE WK(a) = "Any" -> "F"                                     \* doorpep484any
    [] IsA(WK(a), "Class") -> B3(ArgsIgn(F, br) /\ OSub(Origin(a), Origin(br)))      \* doorpep484class
    [] WK(a) = "TupleFixed" ->                                  \* doorpep484585tuple
         LET ka == Kids(a)  kb == Kids(br) IN
         IF ArgsIgn(F, br) THEN B3(OSub("tuple", Origin(br)))
         ELSE IF WK(br) = "TupleVariable" THEN AllV([i \in DOMAIN ka |-> IsSub(F, ka[i], kb[1])])
         ELSE IF WK(br) # "TupleFixed" THEN "F"
         ELSE IF Len(ka) # Len(kb) THEN (IF "tuple_zip_short" \in F /\ Len(ka) < Len(kb)
                                         THEN AllV([i \in DOMAIN ka |-> IsSub(F, ka[i], kb[i])]) ELSE "F")
         ELSE AllV([i \in DOMAIN ka |-> IsSub(F, ka[i], kb[i])])
    [] WK(a) = "Annotated" ->                                   \* doorpep593
         IF WK(br) # "Annotated" THEN IsSub(F, a.a[1], br)
         ELSE IF "ann_not_gt" \in F
         THEN LET g == Gt(F, a.a[1], br.a[1]) IN
              IF g = "X" THEN "X"
              ELSE IF g = "T" \/ Len(a.m) # Len(br.m) THEN "F"
              ELSE B3(a.m = br.m)
         ELSE LET s == IsSub(F, a.a[1], br.a[1]) IN
              IF s # "T" THEN s ELSE B3(a.m = br.m)
    [] WK(a) = "Callable" ->                                    \* doorpep484585callable
         LET ka == Kids(a)   kb == Kids(br)
             pa == SubSeq(ka, 1, Len(ka) - 1)   pb == SubSeq(kb, 1, Len(kb) - 1)
             ra == ka[Len(ka)]                  rb == kb[Len(kb)]
             ret == IF IgnX(F, rb) THEN "T" ELSE IF IgnX(F, ra) THEN "F" ELSE IsSub(F, ra, rb) IN
         IF ArgsIgn(F, br) THEN B3(OSub("Callable", Origin(br)))
         ELSE IF WK(br) # "Callable" THEN "F"
         ELSE IF br.s = "ellipsis" THEN ret
         ELSE IF a.s = "ellipsis" \/ Len(pa) # Len(pb) THEN "F"
         ELSE IF "call_param_not_gt" \in F
         THEN LET g == AnyV([i \in DOMAIN pa |-> Gt(F, pa[i], pb[i])]) IN
              IF g = "X" THEN "X" ELSE IF g = "T" THEN "F" ELSE ret
         ELSE LET qa == SubSeq(a.a, 1, Len(a.a) - 1)   qb == SubSeq(br.a, 1, Len(br.a) - 1) IN   \* as written
              IF Len(qa) # Len(qb) THEN "F"
              ELSE LET c == AllV([i \in DOMAIN qa |-> IsSub(F, qb[i], qa[i])]) IN      \* contravariant
                   IF c # "T" THEN c ELSE ret
    [] IsA(WK(a), "Union") -> Assert(FALSE, "UnionTypeHint._is_subhint_branch is unreachable")
    [] OTHER -> DefBranch(F, a, br)

\* __eq__ -> _is_equal (SubscriptedTypeHint and AnnotatedTypeHint override the mutual-subhint default)
EqH(F, x, y) ==
  CASE WK(x) \in {"Subscripted", "TupleVariable"} ->
         IF ArgsIgn(F, x) /\ ArgsIgn(F, y) THEN B3(Origin(x) = Origin(y))
         ELSE IF Sign(x) # Sign(y) \/ Len(Kids(x)) # Len(Kids(y)) THEN "F"
         ELSE AllV([i \in DOMAIN Kids(x) |-> EqH(F, Kids(x)[i], Kids(y)[i])])
    [] WK(x) = "Annotated" ->
         IF WK(y) # "Annotated" THEN "F"
         ELSE LET e == EqH(F, x.a[1], y.a[1]) IN IF e # "T" THEN e ELSE B3(x.m = y.m)
    [] OTHER -> LET s == IsSub(F, x, y) IN IF s # "T" THEN s ELSE IsSub(F, y, x)

=============================================================================
