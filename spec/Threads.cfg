\* Stand-alone configuration (the driver verifkit/drivers/c15.py generates its own):
\* 2 threads x 1 operation, every operation, the faithful model of beartype 0.23.0.
\* P3_GlobalRestored is left out here: the faithful model violates it (catch_warnings race),
\* set Legacy = {} to check the ideal design against it.
SPECIFICATION Spec
CONSTANTS
  NThreads = 2
  ProgLen = 1
  OpSel = {"Conf_ka", "Conf_ka2", "Conf_kb", "TH_A", "TH_NA", "TH_NB", "Bear_LA", "Bear_LB", "Dec_LA_D", "Dec_LB_D", "Dec_LA_C1", "Hook_pa_C1", "Hook_pa_C2", "Hook_pb_C1", "Look_pa", "Look_pb"}
  Mutant = "none"
  Legacy = {"warn_ctx"}
  WarmPool = FALSE
  LazyProg = FALSE
VIEW View
INVARIANT P1_Exclusive
INVARIANT P1_PoolIffFree
INVARIANT P1_NoDuplicate
INVARIANT P1_UseHeld
INVARIANT P1_NoFault
INVARIANT P2_Singleton
INVARIANT P2_OneIdPerKey
INVARIANT P3_Linearisable
INVARIANT P3_MemoSound
INVARIANT P4_NoLostReg
INVARIANT P4_LockOrder
INVARIANT LockSane
CHECK_DEADLOCK TRUE
