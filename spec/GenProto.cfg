\* A small stand-alone configuration (the driver generates its own):
\* asynchronous generators, the faithful transcription of CODE_PEP525_RETURN_CHECKED.
SPECIFICATION Spec
CONSTANTS
  Kind = "agen"
  Wrap = "faithful"
  KeepHist = TRUE
  EmitRows = FALSE
  MaxOps = 3
  PostMax = 1
  OpSet = {"next", "send7", "tE1", "tSA", "tGE", "close"}
  PreA = {}
  PreMax = 0
  BlkA = {"RX"}
  BlkMax = 1
  HcSet = {"", "E1", "GeneratorExit"}
  HblkA = {"Y2", "R1", "XE"}
  HblkMax = 1
  FinA = {"LF"}
  FinMax = 1
  PostA = {"Y1", "XE", "R1"}
  PostLen = 1
  WrappedSet = {"none"}
INVARIANT TypeOK
INVARIANT LockStepModF7
INVARIANT NoOrphan
CHECK_DEADLOCK FALSE
