\* Wrapper.tla, design check at the quick bounds (the driver verifkit/drivers/c04.py generates
\* this and the emit / mutant configurations into a scratch directory).
SPECIFICATION Spec
CONSTANTS
  MaxPosOnly = 1
  MaxFlex = 1
  MaxKwOnly = 1
  MaxSurplus = 1
  MaxKw = 1
  MaxBad = 2
  Specials = {"n", "z", "o"}
  Extras = {"x1"}
  VarNames = FALSE
  Mode = "check"
  ShardPos = 99
  ShardKw = 99
  ShardMod = 1
  ShardRem = 0
  Mutant = "none"
INVARIANT CheckedSound
INVARIANT CheckedAll
INVARIANT DefaultsUnchecked
INVARIANT BadBlocks
INVARIANT Transparent
INVARIANT Unbindable
INVARIANT RanLate
INVARIANT KindFollows
INVARIANT AgreesWithRun
CHECK_DEADLOCK FALSE
