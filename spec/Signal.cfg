SPECIFICATION Spec
INVARIANT NoSignalOnAccept
INVARIANT RejectionIsConfigured
INVARIANT WarningProceeds
INVARIANT Emit
CHECK_DEADLOCK FALSE
