---------------------------- MODULE ClawRegistry ----------------------------
(***************************************************************************)
(* beartype.claw package registry  (C06).                                  *)
(*                                                                         *)
(*   beartype/claw/_clawmain.py              beartype_all / beartype_package(s) / beartype_this_package *)
(*   beartype/claw/_package/clawpkgmain.py   hook_packages, _blacklist_packages,        *)
(*                                           _whitelist_packages_all/_some              *)
(*   beartype/claw/_package/clawpkgtrie.py   get_package_conf_or_none, is_package_blacklisted, *)
(*                                           iter_packages_trie, is_packages_trie       *)
(*   beartype/claw/_package/clawpkgcontext.py  beartyping()                             *)
(*   beartype/claw/_importlib/clawimpmain.py   add/remove_beartype_path_hook            *)
(*   beartype/claw/_clawstate.py             claw_state, built-in blacklist             *)
(*                                                                         *)
(* FAITHFUL side: the registry as the code keeps it (whitelist trie with   *)
(* its empty intermediate nodes, configuration of the root node, blacklist *)
(* trie, path-hook flag, the stack of live beartyping() generators) and    *)
(* one action per public call, composed of the same steps in the same      *)
(* order as hook_packages():  make_conf_hookable ; [conflict pre-check] ;  *)
(* _blacklist_packages ; _whitelist_packages_* (package by package, may    *)
(* stop with a conflict) ; add_beartype_path_hook.                         *)
(*                                                                         *)
(* DECLARATIVE side: ghost variables record only *what was asked for* by   *)
(* the calls that returned normally (greg, gskip, gbase); IdealLookup,     *)
(* IdealOutcome and ActiveAll restate C06 over them without mentioning     *)
(* tries, walks or the order of steps.                                     *)
(*                                                                         *)
(* The module models the INTENDED design (what C06 demands).  The constant *)
(* Legacy switches on behaviours of beartype 0.23.0 and a few plausible    *)
(* wrong designs; every non-empty value is a spec mutant that TLC rejects: *)
(*   "exit_raw_compare"  beartyping().__exit__ compares the root conf with *)
(*                       the caller's conf instead of the hookable one     *)
(*                       (0.23.0: never restores for ordinary confs)       *)
(*   "enter_fail_leak"   beartyping(conf=<invalid>) leaves the root conf   *)
(*                       nulled (0.23.0)                                    *)
(*   "conflict_partial"  no conflict pre-check: blacklist entries and the  *)
(*                       packages preceding the conflicting one stay       *)
(*                       registered although the call raises (0.23.0)      *)
(*   "walk_shallow"      lookup keeps the shallowest configuration         *)
(*   "blacklist_ignored" lookup does not consult the blacklist             *)
(*   "exit_drops_hook"   exit removes the path hook unconditionally        *)
(*                                                                         *)
(* Design decision recorded as an assumption of the check: the blacklist   *)
(* (claw_skip_package_names) is a monotone process-global set, also for    *)
(* configurations passed to beartyping(); leaving a block restores the     *)
(* beartype_all state and the path hook, not the skip list.                *)
(***************************************************************************)
EXTENDS Naturals, Sequences, FiniteSets, TLC

CONSTANTS Basenames,   \* package basenames
          MaxDepth,    \* names queried: all dotted names over Basenames of depth <= MaxDepth
          RegPaths,    \* names offered to the registration calls (subset of Names)
          Builtin,     \* top-level basenames excluded by beartype itself (BLACKLIST_PACKAGE_NAMES + beartype)
          UserConfs,   \* configurations the caller may pass
          MaxCtx,      \* nesting bound of beartyping()
          MaxPkgs,     \* longest package list passed to beartype_packages()
          Legacy       \* set of legacy / wrong-design switches (see above); {} = intended design

RECURSIVE SeqsOfLen(_, _)
SeqsOfLen(S, n) == IF n = 0 THEN {<<>>} ELSE { Append(s, b) : s \in SeqsOfLen(S, n - 1), b \in S }
Names == TLCEval(UNION { SeqsOfLen(Basenames, n) : n \in 1..MaxDepth })

PrefixOf(p, q) == Len(p) <= Len(q) /\ SubSeq(q, 1, Len(p)) = p
NonEmptyPrefixes(p) == { SubSeq(p, 1, n) : n \in 1..Len(p) }
SeqRange(s) == { s[i] : i \in DOMAIN s }

(* ---- configurations --------------------------------------------------------------- *)
\* id    identifies the option values other than the two below
\* hk    warning_cls_on_decorator_exception explicitly set to BeartypeClawDecorWarning:
\*       make_conf_hookable() returns such a configuration unchanged, and derives it
\*       from one with hk = FALSE (a different, unequal BeartypeConf object)
\* skip  claw_skip_package_names (a set of names)
NoConf  == [id |-> "none", hk |-> FALSE, skip |-> {}]
BadConf == [id |-> "bad",  hk |-> FALSE, skip |-> {}]     \* not a BeartypeConf at all
H(c) == [c EXCEPT !.hk = TRUE]                            \* make_conf_hookable
L(x) == x \in Legacy

(* ---- state --------------------------------------------------------------------------- *)
VARIABLES wl,     \* [Names -> conf | NoConf]  conf_if_hooked of the whitelist trie node of that name
          nodes,  \* names that exist as whitelist trie nodes (with or without a conf)
          root,   \* conf_if_hooked of the root node = beartype_all()'s configuration
          bt,     \* blacklist trie: names whose node is the PackagesTrieBlacklisted leaf (user part)
          hook,   \* claw_state.beartype_path_hook installed in sys.path_hooks
          ctx,    \* live beartyping() generators: <<[saved |-> root before, c |-> conf passed]>>
          res,    \* outcome of the last call: "init" | "ok" | "conflict" | "invalid"
          last,   \* the last call: [op, ps, c]
          proj,   \* exported observation: [Names -> what get_package_conf_or_none returns]
          greg,   \* ghost: [Names -> conf | NoConf] registrations granted (calls that returned)
          gskip,  \* ghost: names passed in skip lists of calls that returned
          gbase   \* ghost: configuration of beartype_all() granted outside any block
reg   == <<wl, nodes, root, bt, hook>>          \* "the registry"
ghost == <<greg, gskip, gbase>>
vars  == <<wl, nodes, root, bt, hook, ctx, res, last, proj, greg, gskip, gbase>>

Call(op, ps, c) == [op |-> op, ps |-> ps, c |-> c]
Cur == [wl |-> wl, nodes |-> nodes, root |-> root, bt |-> bt, hook |-> hook]

Init == /\ wl = [p \in Names |-> NoConf] /\ nodes = {} /\ root = NoConf /\ bt = {}
        /\ hook = FALSE /\ ctx = <<>> /\ res = "init" /\ last = Call("init", <<>>, NoConf)
        /\ greg = [p \in Names |-> NoConf] /\ gskip = {} /\ gbase = NoConf
        /\ proj = [p \in Names |-> NoConf]

BuiltinPaths == { <<b>> : b \in Builtin }

(* ---- faithful steps of hook_packages() ---------------------------------------------- *)
\* _blacklist_packages(): walk down creating inner nodes, then overwrite the last node with
\* the PackagesTrieBlacklisted leaf (dropping whatever subtree was there).  If an ancestor
\* already is that leaf the walk continues *inside the shared singleton* and mutates it;
\* no lookup can see that (is_package_blacklisted stops at the first leaf): unchanged here.
\* The same holds below (and at) the built-in leaves, which are that singleton too.
BlacklistOne(b, p) ==
  IF (\E q \in b : PrefixOf(q, p) /\ q # p) \/ (\E q \in BuiltinPaths : PrefixOf(q, p)) THEN b
  ELSE { q \in b : ~PrefixOf(p, q) } \cup {p}
RECURSIVE BlacklistAll(_, _)
BlacklistAll(b, ns) ==
  IF ns = {} THEN b ELSE LET p == CHOOSE x \in ns : TRUE IN BlacklistAll(BlacklistOne(b, p), ns \ {p})

\* _whitelist_packages_all()
WhitelistAll(s, c) ==
  IF s.root = NoConf THEN [s |-> [s EXCEPT !.root = c], ok |-> TRUE]
  ELSE IF s.root = c THEN [s |-> s, ok |-> TRUE]
  ELSE [s |-> s, ok |-> FALSE]

\* _whitelist_packages_some(): package by package; every visited node is created; the first
\* package already registered with another configuration raises in the middle of the loop
RECURSIVE WhitelistSome(_, _, _)
WhitelistSome(s, ps, c) ==
  IF ps = <<>> THEN [s |-> s, ok |-> TRUE]
  ELSE LET p  == Head(ps)
           s1 == [s EXCEPT !.nodes = @ \cup NonEmptyPrefixes(p)]
       IN IF s.wl[p] = NoConf THEN WhitelistSome([s1 EXCEPT !.wl[p] = c], Tail(ps), c)
          ELSE IF s.wl[p] = c THEN WhitelistSome(s1, Tail(ps), c)
          ELSE [s |-> s1, ok |-> FALSE]

\* is_packages_trie()
IsTrie(r, n) == r # NoConf \/ n # {}

\* hook_packages(claw_coverage, conf, package_names) on registry s
\* cov = "all" | "some";  returns the new registry and the outcome
HookPackages(s, cov, ps, uc) ==
  IF uc = BadConf THEN [s |-> s, out |-> "invalid"]        \* make_conf_hookable -> die_unless_conf
  ELSE
    LET c == H(uc)
        conflicts == IF cov = "all" THEN s.root \notin {NoConf, c}
                     ELSE \E i \in DOMAIN ps : s.wl[ps[i]] \notin {NoConf, c}
    IN IF ~L("conflict_partial") /\ conflicts
       THEN [s |-> s, out |-> "conflict"]                  \* intended: detect before mutating
       ELSE LET s1 == [s EXCEPT !.bt = BlacklistAll(@, c.skip)]
                r  == IF cov = "all" THEN WhitelistAll(s1, c) ELSE WhitelistSome(s1, ps, c)
            IN IF r.ok THEN [s |-> [r.s EXCEPT !.hook = TRUE], out |-> "ok"]   \* add_beartype_path_hook
               ELSE [s |-> r.s, out |-> "conflict"]

Install(s) == /\ wl' = s.wl /\ nodes' = s.nodes /\ root' = s.root /\ bt' = s.bt /\ hook' = s.hook

(* ---- declarative side ---------------------------------------------------------------- *)
\* the configuration beartype_all() is active with: the innermost open block's, else the
\* one granted globally
ActiveAllOf(cx, gb) == IF cx = <<>> THEN gb ELSE H(cx[Len(cx)].c)
ActiveAll == ActiveAllOf(ctx, gbase)

IdealSkipped(name, gs) == \E q \in gs \cup BuiltinPaths : PrefixOf(q, name)

IdealLookupOf(name, gr, gs, all) ==
  IF IdealSkipped(name, gs) THEN NoConf
  ELSE LET anc == { q \in NonEmptyPrefixes(name) : gr[q] # NoConf } IN
       IF anc = {} THEN all
       ELSE gr[CHOOSE q \in anc : \A q2 \in anc : Len(q2) <= Len(q)]
IdealLookup(name) == IdealLookupOf(name, greg, gskip, ActiveAll)

\* outcome C06 demands of a call, from what was granted so far
IdealOutcome(cl) ==
  IF cl.op = "init" THEN "init"
  ELSE IF cl.c = BadConf \/ cl.op = "badname" THEN "invalid"
  ELSE IF cl.op = "all" THEN (IF ActiveAll \in {NoConf, H(cl.c)} THEN "ok" ELSE "conflict")
  ELSE IF cl.op \in {"pkgs", "this"}
       THEN (IF \A i \in DOMAIN cl.ps : greg[cl.ps[i]] \in {NoConf, H(cl.c)} THEN "ok" ELSE "conflict")
  ELSE "ok"

\* the call only repeats what is registered already
IsReRegistration(cl) ==
  /\ cl.c # BadConf
  /\ \/ cl.op = "all" /\ ActiveAll = H(cl.c)
     \/ cl.op \in {"pkgs", "this"} /\ \A i \in DOMAIN cl.ps : greg[cl.ps[i]] = H(cl.c)

(* ---- lookup as the code does it ------------------------------------------------------- *)
\* is_package_blacklisted(): walk down the blacklist trie, stop at the first leaf
TrieBlacklistedIn(name, b) == \E n \in 1..Len(name) : SubSeq(name, 1, n) \in b \cup BuiltinPaths

\* iter_packages_trie() + the loop of get_package_conf_or_none(): the generator yields the
\* nodes on the way down and stops at the first missing one; the loop keeps
\* "conf_if_hooked or <what it had>", i.e. the deepest configuration
TrieWalkIn(name, w, ns, r) ==
  LET Yielded(n) == \A m \in 1..n : SubSeq(name, 1, m) \in ns
      F[n \in 0..Len(name)] ==
        IF n = 0 THEN r
        ELSE LET q == SubSeq(name, 1, n) IN
             IF ~Yielded(n) THEN F[n-1]
             ELSE IF L("walk_shallow") THEN (IF F[n-1] # NoConf THEN F[n-1] ELSE w[q])
             ELSE (IF w[q] # NoConf THEN w[q] ELSE F[n-1])
  IN F[Len(name)]

TrieLookupIn(name, w, ns, r, b) ==
  IF ~L("blacklist_ignored") /\ TrieBlacklistedIn(name, b) THEN NoConf
  ELSE TrieWalkIn(name, w, ns, r)
TrieLookup(name) == TrieLookupIn(name, wl, nodes, root, bt)

\* the observation exported with every state (computed from the primed registry)
Observe == proj' = [n \in Names |-> TrieLookupIn(n, wl', nodes', root', bt')]

(* ---- actions: one per public call ----------------------------------------------------- *)
Grant(ps, c) ==       \* ghost update of a registration call that returned
  /\ greg' = [p \in Names |-> IF p \in SeqRange(ps) THEN c ELSE greg[p]]
  /\ gskip' = gskip \cup c.skip
  /\ UNCHANGED gbase

\* Every action carries the outcome of the call as its last parameter (out = the value
\* res takes), so that the labels of a dumped state graph name call and outcome.
Outs == {"ok", "conflict", "invalid"}

\* beartype_packages(ps, conf=uc)   /  beartype_package(p, conf=uc) when Len(ps) = 1
Pkgs(ps, uc, out) ==
  LET r == HookPackages(Cur, "some", ps, uc) IN
  /\ out = r.out
  /\ Install(r.s) /\ res' = r.out /\ last' = Call("pkgs", ps, uc)
  /\ IF r.out = "ok" THEN Grant(ps, H(uc)) ELSE UNCHANGED ghost
  /\ UNCHANGED ctx /\ Observe

\* beartype_this_package(conf=uc) called from a module whose __package__ is p
This(p, uc, out) ==
  LET r == HookPackages(Cur, "some", <<p>>, uc) IN
  /\ out = r.out
  /\ Install(r.s) /\ res' = r.out /\ last' = Call("this", <<p>>, uc)
  /\ IF r.out = "ok" THEN Grant(<<p>>, H(uc)) ELSE UNCHANGED ghost
  /\ UNCHANGED ctx /\ Observe

\* a registration call whose package name argument is invalid ("a..b", "", (), 3, ...):
\* make_package_names_from_args raises before the lock is taken
BadName(uc, out) ==
  /\ out = "invalid"
  /\ res' = "invalid" /\ last' = Call("badname", <<>>, uc)
  /\ UNCHANGED <<wl, nodes, root, bt, hook, ctx, greg, gskip, gbase, proj>>

\* beartype_all(conf=uc)
All(uc, out) ==
  LET r == HookPackages(Cur, "all", <<>>, uc) IN
  /\ out = r.out
  /\ Install(r.s) /\ res' = r.out /\ last' = Call("all", <<>>, uc)
  /\ IF r.out = "ok"
     THEN /\ gskip' = gskip \cup uc.skip
          /\ gbase' = IF ctx = <<>> THEN H(uc) ELSE gbase
          /\ UNCHANGED greg
     ELSE UNCHANGED ghost
  /\ UNCHANGED ctx /\ Observe

\* beartyping(conf=uc).__enter__():  save the root conf, null it, beartype_all(conf);
\* if that raises, the finally clause of the generator runs inside __enter__ and the
\* with statement never reaches its body (no block is opened)
Enter(uc, out) ==
  /\ Len(ctx) < MaxCtx
  /\ LET r == HookPackages([Cur EXCEPT !.root = NoConf], "all", <<>>, uc) IN
     /\ out = r.out
     /\ IF r.out = "ok"
        THEN /\ Install(r.s) /\ ctx' = Append(ctx, [saved |-> root, c |-> uc])
             /\ gskip' = gskip \cup uc.skip /\ UNCHANGED <<greg, gbase>>
        ELSE \* invalid conf (the nulled root excludes a conflict)
             /\ IF L("enter_fail_leak")
                THEN root' = NoConf /\ UNCHANGED hook         \* None == conf is false: nothing restored
                ELSE root' = root /\ hook' = (hook /\ IsTrie(root, nodes))
             /\ UNCHANGED <<wl, nodes, bt, ctx, ghost>>
     /\ res' = r.out
  /\ last' = Call("enter", <<>>, uc) /\ Observe

\* beartyping().__exit__() of the innermost live block
Exit(out) ==
  /\ ctx # <<>> /\ out = "ok"
  /\ LET f   == ctx[Len(ctx)]
         cmp == IF L("exit_raw_compare") THEN f.c ELSE H(f.c) IN
     IF root = cmp
     THEN /\ root' = f.saved
          /\ hook' = IF L("exit_drops_hook") THEN FALSE
                     ELSE (hook /\ IsTrie(f.saved, nodes))  \* remove_beartype_pathhook_unless_packages_trie
     ELSE UNCHANGED <<root, hook>>
  /\ ctx' = SubSeq(ctx, 1, Len(ctx) - 1)
  /\ res' = "ok" /\ last' = Call("exit", <<>>, NoConf)
  /\ UNCHANGED <<wl, nodes, bt, ghost>> /\ Observe

PkgSeqs == TLCEval(UNION { SeqsOfLen(RegPaths, n) : n \in 1..MaxPkgs })
AnyConf == UserConfs \cup {BadConf}

Next == \E out \in Outs :
        \/ \E ps \in PkgSeqs, uc \in AnyConf : Pkgs(ps, uc, out)
        \/ \E p \in RegPaths, uc \in AnyConf : This(p, uc, out)
        \/ \E uc \in UserConfs : BadName(uc, out)
        \/ \E uc \in AnyConf : All(uc, out)
        \/ \E uc \in AnyConf : Enter(uc, out)
        \/ Exit(out)
Spec == Init /\ [][Next]_vars

\* states that differ only in the record of the last call have the same future
View == <<wl, nodes, root, bt, hook, ctx, greg, gskip, gbase>>

(* ---- C06 ------------------------------------------------------------------------------- *)
TypeOK == /\ nodes \subseteq Names /\ bt \subseteq Names /\ gskip \subseteq Names
          /\ hook \in BOOLEAN /\ Len(ctx) <= MaxCtx
          /\ res \in {"init", "ok", "conflict", "invalid"}

\* "a module is type-checked exactly when it is not inside a skipped or built-in-excluded
\*  package and either beartype_all is active or the module or one of its dotted ancestors
\*  was registered; the configuration applied is that of the nearest registered ancestor,
\*  else beartype_all's"  -- for every name over the basenames
\* (proj is, by construction of every action, the trie lookup of the current registry)
LookupOK == \A name \in Names : proj[name] = IdealLookup(name)
ProjOK   == \A name \in Names : proj[name] = TrieLookup(name)

\* ... and for any name that no registration, skip list or built-in exclusion covers (there
\* always is one outside the finite universe of the model) the lookup is the root conf
RootOK == root = ActiveAll

\* the path hook is installed exactly while something is registered
HookOK == hook <=> (ActiveAll # NoConf \/ \E p \in Names : greg[p] # NoConf)

\* every trie node lies on the way to a registered package (no stray nodes)
NodesOK == nodes = UNION { NonEmptyPrefixes(p) : p \in { q \in Names : wl[q] # NoConf } }

\* every call ends as C06 says, whatever happened before
OutcomeOK == [][res' = IdealOutcome(last')]_vars

\* "registering it with a different one raises BeartypeClawHookException and leaves the
\*  registry as it was" (and so does any other call that raises)
FailedCallAtomic == [][res' \in {"conflict", "invalid"} => UNCHANGED <<wl, nodes, root, bt, hook, ctx>>]_vars

\* "re-registering a name with an equal configuration changes nothing"
ReRegisterNoop == [][IsReRegistration(last') /\ last'.op \in {"pkgs", "this", "all"}
                     => res' = "ok" /\ UNCHANGED <<wl, nodes, root, bt, hook, ctx>>]_vars

\* "leaving a beartyping() block restores exactly the state that preceded it, including
\*  removal of the path hook when nothing remains registered"
ExitRestores == [][last'.op = "exit" /\ ctx # <<>> /\ ctx' = SubSeq(ctx, 1, Len(ctx) - 1)
                   => /\ root' = ctx[Len(ctx)].saved
                      /\ UNCHANGED <<wl, nodes, bt>>
                      /\ hook' = IsTrie(root', nodes')]_vars

(* ---- defaults for the static configuration (ClawRegistry.cfg) -------------------------- *)
U(id, hk, skip) == [id |-> id, hk |-> hk, skip |-> skip]
DefaultRegPaths == {<<"a">>, <<"a", "b">>, <<"b">>}
DefaultConfs    == {U("C0", FALSE, {}), U("C1", FALSE, {})}
=============================================================================
