------------------------------- MODULE MC_Vale -------------------------------
(* C12: validator algebra.  Enumerates Annotated[T, V1..Vn] hints with validator     *)
(* expressions over the five factories and three operators at five positions         *)
(* (root, list item, fixed-tuple position, mapping value, union member), a dedicated  *)
(* object universe (objects with / without attributes, classes and non-classes) and   *)
(* checks that generated code (ValCode inside Chk), boolean meaning (ValSem inside    *)
(* Sat) and is_valid coincide.  Rows are emitted for the replay engine.               *)
EXTENDS Semantics, SequencesExt, FiniteSetsExt, Json, IOUtils

CONSTANTS Tier, L, Emit

SeqsUpTo(S, n) == UNION { [1..k -> S] : k \in 0..n }

AllAtoms == {i0, i1, i2, bF, bT, f1, sa, sb, none, oa, ob, cj}
TypeObjs == {TypeObj("int"), TypeObj("bool"), TypeObj("str"), TypeObj("A"), TypeObj("B")}
ItemAtoms == {i1, i0, sa, none, oa, ob, TypeObj("B"), TypeObj("int")}
D1 == { Cont(c, s) : c \in {"list", "tuple"}, s \in SeqsUpTo(ItemAtoms, L) }
      \cup { Map("dict", s) : s \in { <<>> } \cup { <<KV(sa, v)>> : v \in ItemAtoms }
                                   \cup { <<KV(sa, v), KV(i1, w)>> : v, w \in {i1, oa, ob, none} } }
      \cup { Cont("set", <<>>), Cont("set", <<i1>>), Cont("set", <<sa>>) }
Objs == AllAtoms \cup TypeObjs \cup D1
OSeq == TLCEval(SetToSeq(Objs))
NObj == TLCEval(Len(OSeq))

IntH == HCls("int")  StrH == HCls("str")  NoneH == HCls("NoneType")
VAtoms == { VIs("truthy"), VIs("isstr"), VIs("sized1"),
            VAttr("x", VEq(i1)), VAttr("x", VIs("truthy")), VAttr("y", VAttr("x", VEq(i1))), VAttr("x", VInst("str")),
            VEq(i1), VEq(sa), VEq(none), VInst("int"), VInst("A"), VSub("A"), VSub("int"),
            \* the same attribute name nested, followed by a sibling operand on the outer attribute value
            VAttr("y", VAnd(VAttr("y", VInst("str")), VAttr("x", VEq(i1)))),
            VAttr("y", VOr(VAttr("y", VEq(i1)), VAttr("x", VEq(i1)))),
            VAttr("y", VAnd(VNot(VAttr("y", VAttr("y", VIs("truthy")))), VAttr("x", VIs("truthy")))) }
VCore == { VIs("truthy"), VAttr("x", VEq(i1)), VEq(i1), VInst("A"), VSub("A"), VAttr("y", VAttr("x", VEq(i1))) }
VExpr1 == VAtoms \cup { VNot(v) : v \in VAtoms }
VExpr2 == { VAnd(v, w) : v \in VCore, w \in VExpr1 } \cup { VOr(v, w) : v \in VCore, w \in VExpr1 }
VExpr3 == { VNot(v) : v \in { e \in VExpr2 : e.a[1] \in {VIs("truthy"), VAttr("x", VEq(i1))}
                                                /\ (Tier # "quick" \/ e.a[2] \in VCore) } }
          \cup { VAnd(VOr(VEq(i1), VInst("A")), VNot(VAttr("x", VEq(i1)))),
                 VOr(VAnd(VIs("truthy"), VInst("int")), VAnd(VAttr("x", VIs("truthy")), VNot(VAttr("y", VIs("truthy"))))),
                 VNot(VNot(VAttr("x", VEq(i1)))) }
VCoreQ == { VIs("truthy"), VAttr("x", VEq(i1)), VInst("A") }
VAll == IF Tier = "quick" THEN VExpr1 \cup { e \in VExpr2 : e.a[2].k # "not" /\ e.a[1] \in VCoreQ } \cup VExpr3
        ELSE VExpr1 \cup VExpr2 \cup VExpr3
Bases == { HAny, HCls("object"), IntH, HCls("A"), HSeq("list", IntH) }

\* Annotated hints at the root ...
Root == { HAnn(b, <<v>>) : b \in Bases, v \in VAll }
        \cup { HAnn(b, <<v, w>>) : b \in {HAny, IntH, HCls("A")}, v \in VCore, w \in VCore }
\* ... and nested: the pith expression handed to the validator code is then not an identifier
AnnKid == { HAnn(b, <<v>>) : b \in {HAny, HCls("object"), IntH, HCls("A")}, v \in VAtoms \cup VExpr3 }
          \cup { HAnn(b, <<v, w>>) : b \in {HAny, HCls("A")}, v \in {VAttr("x", VEq(i1)), VIs("truthy")},
                                      w \in {VInst("A"), VAttr("y", VAttr("x", VEq(i1)))} }
Nested == { HSeq("list", k) : k \in AnnKid } \cup { HTupF(<<IntH, k>>) : k \in AnnKid }
          \cup { HTupF(<<k, HAny>>) : k \in AnnKid }
          \cup { HMap("dict", StrH, k) : k \in AnnKid } \cup { HMap("dict", HAny, k) : k \in AnnKid }
          \cup { HUnion(<<k, NoneH>>) : k \in AnnKid } \cup { HReit("set", k) : k \in AnnKid }
HintSet == Root \cup Nested
HintSeq == TLCEval(SetToSeq(HintSet))
NHint == TLCEval(Len(HintSeq))

Confs == << Conf(TRUE, FALSE, FALSE) >>
Lcm == CASE L = 1 -> 1 [] L = 2 -> 2 [] L = 3 -> 6
Draws == 0 .. (Lcm - 1)

CH == 8
VARIABLES ph, hid
vars == <<ph, hid>>
Init == ph = 0 /\ hid = 0
Next == \/ /\ ph = 0 /\ ph' = 1 /\ hid' \in { 1 + k * CH : k \in 0 .. ((NHint - 1) \div CH) }
        \/ /\ ph = 1 /\ ph' = 2 /\ hid' \in { j \in hid .. (hid + CH - 1) : j <= NHint }
Spec == Init /\ [][Next]_vars
Hint == HintSeq[hid]
Active == ph = 2

\* the validators of a root-position Annotated hint (else none)
RootVals == IF Hint.k = "ann" THEN Hint.m ELSE <<>>

\* C12: the generated check accepts exactly when T and every Vi hold (root position: no sampling involved)
C12_CodeIsMeaning ==
  (Active /\ Hint.k = "ann") => \A j \in 1..NObj : \A r \in Draws :
      Chk(Hint, OSeq[j], r, Conf0) =
        ((Ignorable(Hint.a[1]) \/ Chk(Hint.a[1], OSeq[j], r, Conf0)) /\ \A i \in DOMAIN Hint.m : ValSem(Hint.m[i], OSeq[j]))
\* the inline code and the boolean meaning of every validator coincide
C12_ValCodeIsValSem ==
  Active => \A j \in 1..NObj : \A i \in DOMAIN RootVals : ValCode(RootVals[i], OSeq[j]) = ValSem(RootVals[i], OSeq[j])
\* nested positions: no false alarm, guaranteed detection
C12_Nested ==
  Active => \A j \in 1..NObj : \A r \in Draws :
     /\ Sat(Hint, OSeq[j]) => Chk(Hint, OSeq[j], r, Conf0)
     /\ MustReject(Hint, OSeq[j]) => ~Chk(Hint, OSeq[j], r, Conf0)
     /\ Chk(Hint, OSeq[j], r, Conf0) => Weak(Hint, OSeq[j])
\* de Morgan / double negation hold for the boolean meaning (sanity of the declarative side)
C12_Algebra ==
  Active => \A j \in 1..NObj : \A i \in DOMAIN RootVals :
     LET v == RootVals[i] x == OSeq[j] IN
     /\ (v.k = "not" /\ v.a[1].k = "and") => (ValSem(v, x) = (~ValSem(v.a[1].a[1], x) \/ ~ValSem(v.a[1].a[2], x)))
     /\ (v.k = "not" /\ v.a[1].k = "or")  => (ValSem(v, x) = (~ValSem(v.a[1].a[1], x) /\ ~ValSem(v.a[1].a[2], x)))
     /\ (v.k = "not" /\ v.a[1].k = "not") => (ValSem(v, x) = ValSem(v.a[1].a[1], x))

Bit(b, w) == IF b THEN w ELSE 0
Code(h, x) == Bit(Sat(h, x), 1) + Bit(SatB(h, x), 2) + Bit(MustReject(h, x), 4) + Bit(Weak(h, x), 8)
RECURSIVE ChkMask(_, _, _)
ChkMask(h, x, r) == IF r >= Lcm THEN 0 ELSE Bit(Chk(h, x, r, Conf0), 2 ^ r) + ChkMask(h, x, r + 1)
RECURSIVE ValMask(_, _, _)
ValMask(vs, x, i) == IF i > Len(vs) THEN 0 ELSE Bit(ValSem(vs[i], x), 2 ^ (i - 1)) + ValMask(vs, x, i + 1)
Row == LET hh == Hint  os == OSeq IN
   [t |-> "row", hid |-> hid, conf |-> 1, h |-> hh, pub |-> hh, ign |-> FALSE,
    code |-> [j \in 1..Len(os) |-> Code(hh, os[j])],
    chk  |-> [j \in 1..Len(os) |-> ChkMask(hh, os[j], 0)],
    idx  |-> [j \in 1..Len(os) |-> 0],
    val  |-> [j \in 1..Len(os) |-> ValMask(RootVals, os[j], 1)]]
EmitRows == (Active /\ Emit) =>
              JsonSerialize(IOEnv.ROW_DIR \o "/row_" \o ToString(hid) \o "_1.json", Row)
EmitObjs == (ph = 0 /\ Emit) =>
              JsonSerialize(IOEnv.ROW_DIR \o "/objs.json", [t |-> "objs", objs |-> OSeq, confs |-> Confs, lcm |-> Lcm])
=============================================================================
