------------------------------ MODULE PycCache ------------------------------
(***************************************************************************)
(* Bytecode caches under beartype.claw import hooks  (C16).                *)
(*                                                                         *)
(* Anchors: beartype/claw/_importlib/_clawimpfileloader.py                 *)
(*   BeartypeSourceFileLoader.get_code / source_to_code,                   *)
(* beartype/claw/_importlib/clawimpcache.py cache_from_source_beartype,    *)
(* beartype/_data/claw/dataclawmagic.py OPTIMIZATION_MARKER_BEARTYPE,      *)
(* CPython importlib._bootstrap_external.SourceLoader.get_code.            *)
(*                                                                         *)
(* On disk, per module m:  the source (a version counter src[m]) and       *)
(* bytecode files  plain[m]  (mod.cpython-312.pyc)  and  marked[m][k]      *)
(* (mod.cpython-312.opt-<marker k>.pyc).  A slot is [sv, body]: the source *)
(* version stamped into the header (mtime/size) and what was compiled:     *)
(* Plain, or Hooked(astKey) where astKey(conf) are exactly the             *)
(* configuration facts that the AST transformer bakes into bytecode        *)
(* (claw_is_pep526, claw_decor_place_func, claw_decor_place_type, and      *)
(* whether a conf= keyword is emitted); everything else is looked up by    *)
(* module name when the module runs.  sv = 0 means "no such file".         *)
(*                                                                         *)
(* A run is one interpreter process with a hook configuration per package  *)
(* (here: one module per package) or "off".  Inside a run 1-2 threads      *)
(* import modules; an import is a stack frame going through the control    *)
(* points of get_code, one action each:                                    *)
(*   Lookup      conf := get_package_conf_or_none(fullname)                *)
(*   Patch       importlib._bootstrap_external.cache_from_source := bt     *)
(*   ComputePath bytecode_path := cache_from_source(source_path)  -- reads *)
(*               the process-GLOBAL function                               *)
(*   ReadCache   header matches the source: use the file                   *)
(*   Compile     source_to_code: transform iff the loader's conf is set    *)
(*   WriteCache  _cache_bytecode(bytecode_path)                            *)
(*   Restore     finally: global := original                               *)
(*   Finish      unhooked import returns (no patch window)                 *)
(* A frame may be pushed on top of a frame that is about to compile        *)
(* (Nest): the transformer imports beartype-internal modules lazily, i.e.  *)
(* an unhooked import runs INSIDE the patch window of the same thread.     *)
(*                                                                         *)
(* Two design switches, each with the faithful value of beartype 0.23.0    *)
(* and the intended design:                                                *)
(*   MarkerMode "v0230"   one marker for every configuration  (faithful;   *)
(*                        TLC rejects I2)                                  *)
(*              "confkey" the marker encodes astKey(conf)                  *)
(*              "observed" the marker is whatever function of the          *)
(*                        configuration the tree under test was OBSERVED   *)
(*                        to compute on empty caches, given as the         *)
(*                        partition MarkerClasses of the configurations    *)
(*                        (same class = same file name).  I2 fails exactly *)
(*                        for the pairs in StalePairs: same class,         *)
(*                        different astKey                                 *)
(*   PatchMode  "unlocked" the global is assigned without any lock, by     *)
(*                        hooked imports only, and reset to the original   *)
(*                        on exit  (faithful; TLC rejects I1 with two      *)
(*                        threads, and with Nest even with one)            *)
(*              "locked"  every import sets the global to what it needs    *)
(*                        under a re-entrant lock and restores the value   *)
(*                        it found                                         *)
(*              "private" no global at all: each import computes its path  *)
(*                        from its own configuration                       *)
(*              "leaky"   like unlocked, but never restored  (mutant; I3)  *)
(***************************************************************************)
EXTENDS Naturals, Sequences, FiniteSets, TLC

CONSTANTS Modules,      \* module names (one module per package)
          Confs,        \* configuration names a run may hook a package with
          Threads,      \* thread ids inside a run
          MaxSrc,       \* source versions 1..MaxSrc
          MaxRuns,      \* interpreter runs
          MarkerMode,   \* "v0230" | "confkey" | "observed"
          MarkerClasses,\* "observed" only: set of sets of configuration names sharing a marker
          PatchMode,    \* "unlocked" | "locked" | "private" | "leaky"
          Nest          \* BOOLEAN: nested unhooked import inside a compiling hooked import

Off == "off"

\* ---- what a configuration bakes into bytecode ----------------------------------
\* (every configuration installed by a beartype.claw hook is first made "hookable"
\*  and so never equals the default object: the conf= keyword is always emitted)
K(p, f, t) == [p526 |-> p, pf |-> f, pt |-> t, dflt |-> FALSE]
AstKey(c) ==
  CASE c = "default" -> K(TRUE,  "LBDH",  "LAST")
    [] c = "vt"      -> K(TRUE,  "LBDH",  "LAST")     \* other violation_type: resolved when the module runs
    [] c = "nopep"   -> K(FALSE, "LBDH",  "LAST")     \* claw_is_pep526=False
    [] c = "ffirst"  -> K(TRUE,  "FIRST", "LAST")     \* claw_decor_place_func=FIRST
    [] c = "flast"   -> K(TRUE,  "LAST",  "LAST")     \* claw_decor_place_func=LAST
    [] c = "tfirst"  -> K(TRUE,  "LBDH",  "FIRST")    \* claw_decor_place_type=FIRST
    [] c = "tlbdh"   -> K(TRUE,  "LBDH",  "LBDH")     \* claw_decor_place_type=LAST_BEFORE_DECOR_HOSTILE
AllConfs == {"default", "vt", "nopep", "ffirst", "flast", "tfirst", "tlbdh"}
NoKey == [p526 |-> FALSE, pf |-> "-", pt |-> "-", dflt |-> FALSE]

PlainBody == [hooked |-> FALSE, key |-> NoKey]
HookedBody(c) == [hooked |-> TRUE, key |-> AstKey(c)]

(* ---- declarative: what C16 demands ------------------------------------------------ *)
\* the body a module must execute under configuration c (or Off), whatever the history
Want(c) == IF c = Off THEN PlainBody ELSE HookedBody(c)

\* ---- file names ---------------------------------------------------------------------
\* a tag identifies a file name: unmarked, or marked with an identifier of the marker string
\* (a canonical configuration name of the group of configurations that share the marker)
PlainTag == [marked |-> FALSE, id |-> "-"]
KeyRep(c) == CHOOSE r \in AllConfs : AstKey(r) = AstKey(c)
ClassOf(c) == CHOOSE S \in MarkerClasses : c \in S
ObsRep(c) == CHOOSE r \in ClassOf(c) : TRUE
MarkerOf(c) == [marked |-> TRUE,
                id |-> CASE MarkerMode = "confkey"  -> KeyRep(c)
                         [] MarkerMode = "observed" -> ObsRep(c)
                         [] OTHER                   -> "bt"]
\* declarative: the pairs (written under, read under) for which a cache is reused although the
\* transformation differs
StalePairs == { p \in Confs \X Confs : MarkerOf(p[1]) = MarkerOf(p[2]) /\ AstKey(p[1]) # AstKey(p[2]) }
Markers == { MarkerOf(c) : c \in Confs }
WantTag(c) == IF c = Off THEN PlainTag ELSE MarkerOf(c)

Empty == [sv |-> 0, body |-> PlainBody]

VARIABLES src,       \* [Modules -> 1..MaxSrc]
          plain,     \* [Modules -> slot]
          marked,    \* [Modules -> [Markers -> slot]]
          phase,     \* "idle" (between interpreter runs) | "run"
          runs,      \* runs started so far
          hook,      \* [Modules -> Confs \cup {Off}] of the current run
          cfs,       \* the process-global cache_from_source: PlainTag = original, else the marker it appends
          th,        \* [Threads -> Seq(frame)]  import stacks
          started,   \* modules whose import began in this run (sys.modules / module locks)
          executed   \* [Modules -> slot]  what each import of this run handed to exec()
vars == <<src, plain, marked, phase, runs, hook, cfs, th, started, executed>>

Frame(m, c) == [m |-> m, conf |-> c, pc |-> "looked", tag |-> PlainTag, got |-> Empty,
                patched |-> FALSE, prev |-> PlainTag]
Top(t) == th[t][Len(th[t])]
SetTop(t, f) == [th EXCEPT ![t] = [@ EXCEPT ![Len(@)] = f]]
Pop(t) == [th EXCEPT ![t] = SubSeq(@, 1, Len(@) - 1)]
Busy(t) == th[t] # <<>>

SlotAt(m, tag) == IF tag = PlainTag THEN plain[m] ELSE marked[m][tag]
\* CPython validates a .pyc by the source mtime and size stamped into its header, nothing else
Valid(m, tag) == SlotAt(m, tag).sv = src[m]

InWindow(t) == \E i \in 1..Len(th[t]) : th[t][i].patched

Init ==
  /\ src = [m \in Modules |-> 1]
  /\ plain = [m \in Modules |-> Empty]
  /\ marked = [m \in Modules |-> [k \in Markers |-> Empty]]
  /\ phase = "idle" /\ runs = 0
  /\ hook = [m \in Modules |-> Off]
  /\ cfs = PlainTag
  /\ th = [t \in Threads |-> <<>>]
  /\ started = {}
  /\ executed = [m \in Modules |-> Empty]

(* ---- between runs --------------------------------------------------------------- *)
Hooks == [Modules -> Confs \cup {Off}]

StartRunWith(h) ==
  /\ phase = "idle" /\ runs < MaxRuns
  /\ phase' = "run" /\ runs' = runs + 1 /\ hook' = h
  /\ cfs' = PlainTag                            \* a fresh interpreter
  /\ started' = {} /\ executed' = [m \in Modules |-> Empty]
  /\ UNCHANGED <<src, plain, marked, th>>
\* (the chosen hook assignment is read from hook' in dumps and error traces)
StartRun == \E h \in Hooks : StartRunWith(h)

EndRun ==
  /\ phase = "run" /\ \A t \in Threads : ~Busy(t)
  /\ phase' = "idle"
  /\ UNCHANGED <<src, plain, marked, runs, hook, cfs, th, started, executed>>

EditSource(m) ==
  /\ phase = "idle" /\ src[m] < MaxSrc
  /\ src' = [src EXCEPT ![m] = @ + 1]
  /\ UNCHANGED <<plain, marked, phase, runs, hook, cfs, th, started, executed>>

(* ---- one import: get_code ------------------------------------------------------- *)
\* conf = get_package_conf_or_none(fullname); each module is imported at most once per run
Lookup(t, m) ==
  /\ phase = "run" /\ m \notin started
  /\ \/ ~Busy(t)
     \/ /\ Nest /\ Len(th[t]) = 1 /\ hook[m] = Off
        /\ Top(t).pc = "pathed" /\ Top(t).conf # Off /\ ~Valid(Top(t).m, Top(t).tag)
  /\ started' = started \cup {m}
  /\ th' = [th EXCEPT ![t] = Append(@, Frame(m, hook[m]))]
  /\ UNCHANGED <<src, plain, marked, phase, runs, hook, cfs, executed>>

\* _bootstrap_external.cache_from_source = cache_from_source_beartype
Patch(t) ==
  /\ Busy(t) /\ Top(t).pc = "looked"
  /\ CASE PatchMode \in {"unlocked", "leaky"} -> Top(t).conf # Off      \* only hooked imports patch, no lock
       [] PatchMode = "locked"   -> \A u \in Threads \ {t} : ~InWindow(u)   \* every import, re-entrant lock
       [] PatchMode = "private"  -> FALSE
  /\ cfs' = WantTag(Top(t).conf)
  /\ th' = SetTop(t, [Top(t) EXCEPT !.pc = "patched", !.patched = TRUE, !.prev = cfs])
  /\ UNCHANGED <<src, plain, marked, phase, runs, hook, started, executed>>

\* bytecode_path = cache_from_source(source_path): whatever function the GLOBAL names right now
ComputePath(t) ==
  /\ Busy(t)
  /\ \/ Top(t).pc = "patched"
     \/ /\ Top(t).pc = "looked"
        /\ \/ PatchMode \in {"unlocked", "leaky"} /\ Top(t).conf = Off
           \/ PatchMode = "private"
  /\ th' = SetTop(t, [Top(t) EXCEPT !.pc = "pathed",
                                    !.tag = IF PatchMode = "private" THEN WantTag(Top(t).conf) ELSE cfs])
  /\ UNCHANGED <<src, plain, marked, phase, runs, hook, cfs, started, executed>>

ReadCache(t) ==
  /\ Busy(t) /\ Top(t).pc = "pathed" /\ Valid(Top(t).m, Top(t).tag)
  /\ th' = SetTop(t, [Top(t) EXCEPT !.pc = "have", !.got = SlotAt(Top(t).m, Top(t).tag)])
  /\ UNCHANGED <<src, plain, marked, phase, runs, hook, cfs, started, executed>>

\* source_to_code: transforms iff this loader's _module_conf was set by get_code
Compile(t) ==
  /\ Busy(t) /\ Top(t).pc = "pathed" /\ ~Valid(Top(t).m, Top(t).tag)
  /\ th' = SetTop(t, [Top(t) EXCEPT !.pc = "compiled",
                                    !.got = [sv |-> src[Top(t).m], body |-> Want(Top(t).conf)]])
  /\ UNCHANGED <<src, plain, marked, phase, runs, hook, cfs, started, executed>>

WriteCache(t) ==
  /\ Busy(t) /\ Top(t).pc = "compiled"
  /\ LET f == Top(t) IN
       IF f.tag = PlainTag
       THEN plain' = [plain EXCEPT ![f.m] = f.got] /\ UNCHANGED marked
       ELSE marked' = [marked EXCEPT ![f.m][f.tag] = f.got] /\ UNCHANGED plain
  /\ th' = SetTop(t, [Top(t) EXCEPT !.pc = "have"])
  /\ UNCHANGED <<src, phase, runs, hook, cfs, started, executed>>

\* finally: _bootstrap_external.cache_from_source = cache_from_source_original
Restore(t) ==
  /\ Busy(t) /\ Top(t).pc = "have" /\ Top(t).patched
  /\ cfs' = CASE PatchMode = "locked" -> Top(t).prev
              [] PatchMode = "leaky"  -> cfs
              [] OTHER                -> PlainTag
  /\ executed' = [executed EXCEPT ![Top(t).m] = Top(t).got]
  /\ th' = Pop(t)
  /\ UNCHANGED <<src, plain, marked, phase, runs, hook, started>>

Finish(t) ==
  /\ Busy(t) /\ Top(t).pc = "have" /\ ~Top(t).patched
  /\ executed' = [executed EXCEPT ![Top(t).m] = Top(t).got]
  /\ th' = Pop(t)
  /\ UNCHANGED <<src, plain, marked, phase, runs, hook, cfs, started>>

Step(t) == \/ \E m \in Modules : Lookup(t, m)
           \/ Patch(t) \/ ComputePath(t) \/ ReadCache(t) \/ Compile(t) \/ WriteCache(t)
           \/ Restore(t) \/ Finish(t)

Next == \/ StartRun
        \/ EndRun
        \/ \E m \in Modules : EditSource(m)
        \/ \E t \in Threads : Step(t)
Spec == Init /\ [][Next]_vars

(* ---- properties ------------------------------------------------------------------ *)
\* (I1) hooked and unhooked bytecode never share a file
I1plain  == \A m \in Modules : plain[m].sv # 0 => ~plain[m].body.hooked
I1marked == \A m \in Modules : \A k \in Markers : marked[m][k].sv # 0 => marked[m][k].body.hooked
\* (I2) every import executes the current configuration applied to the current source
\* (sources are edited between runs only, so src[m] is the source the run saw)
I2 == phase = "run" =>
        \A m \in Modules : executed[m].sv # 0 => executed[m] = [sv |-> src[m], body |-> Want(hook[m])]
\* (I3) an interpreter never ends with importlib's global still patched
I3 == phase = "idle" => cfs = PlainTag

\* tables for the binding (emitted once by a generated module: ASSUME PrintT(ToJson(Tables)))
Tables == [want  |-> [c \in AllConfs \cup {Off} |-> Want(c)],
           tag   |-> [c \in Confs \cup {Off} |-> WantTag(c)],
           stale |-> StalePairs]
=============================================================================
