------------------------------- MODULE ClawAst -------------------------------
(* C05 -- the beartype.claw import hook preserves program meaning and equals writing   *)
(* the checks by hand.                                                                  *)
(*                                                                                      *)
(* Object of the model: beartype/claw/_ast (BeartypeNodeTransformer).  A module is a    *)
(* finite ordered tree of statements.  The tree is kept in PREORDER with the depth of   *)
(* every node (a canonical encoding: one sequence per tree), e.g.                       *)
(*      class C:            <<  [k |-> "class", d |-> 1],                               *)
(*          def m(a: int):      [k |-> "func",  d |-> 2, ann |-> TRUE],                 *)
(*              x: int = v      [k |-> "ann",   d |-> 3, tgt |-> "name", val |-> TRUE], *)
(*      pass                    [k |-> "pass",  d |-> 1]  >>                            *)
(*                                                                                      *)
(* Node kinds: func(ann, asy, decs) | class(decs) | ann(tgt, val) | block(bk) | doc |   *)
(* future | import | expr | pass.  decs is the existing decorator stack, top-most       *)
(* first, over "p" (an ordinary decorator) and "h" (a decorator named after an          *)
(* attribute of the decorator-hostile trie; it is only *known* to be hostile where an   *)
(* import statement of it is lexically visible; the model's import node is that         *)
(* import).  tgt is the shape of an annotated assignment's target: "name" x, "attr"     *)
(* o.x (base is a plain name), "attrcall" f().x (base has side effects), "subscript".   *)
(*                                                                                      *)
(* Three parts:                                                                         *)
(*  1. Build: TLC grows every tree of the selected bounded grammar (Slice, MaxNodes,    *)
(*     MaxDepth) node by node -- the universal quantifier "for all modules".            *)
(*  2. Walk (implementation-shaped): one action per control point of the transformer:   *)
(*     EnterModule (visit_Module: import placement, module scope pushed),               *)
(*     PlaceDecorator (_decorate_node_beartype), EnterClass / EnterFunc (generic_visit  *)
(*     pushing a scope), Leave (the pop after generic_visit), VisitAnnAssign,           *)
(*     VisitImport (beforelist bookkeeping), VisitOther.  The result is a set of edits. *)
(*  3. Rule (declarative): what the property demands, stated over the tree with the     *)
(*     *lexical* nearest enclosing scope and no reference to the traversal.             *)
(*                                                                                      *)
(* Legacy names behaviours of beartype 0.23.0 that deviate from the intended design:    *)
(*   "async_no_scope" : generic_visit pushes a scope only for ClassDef/FunctionDef      *)
(*                      (TYPES_NODE_LEXICAL_SCOPE lacks AsyncFunctionDef)               *)
(*   "copy_subexprs"  : the inserted die_if_unbearable call re-uses (hence re-evaluates) *)
(*                      the annotation node and the target's base node (DESIGN 5, F8)   *)
(* Mutant names plausible wrong designs that TLC must reject (non-vacuity):             *)
(*   no_pop_nested_class, class_body_checked, import_before_future, method_decorated,   *)
(*   first_is_top (FIRST placed at the top), subscript_checked, end_line_from_start     *)
(*   (an inserted node's end line copied from the host's first line, its end column from *)
(*   the host's last line).                                                              *)
(*                                                                                      *)
(* Slices (bounded grammars; the driver chooses MaxNodes / MaxDepth per tier):          *)
(*   "scope"  nesting of sync/async/unannotated defs, classes, a block, annotated       *)
(*            assignment x: T = v; pep526 on/off                                        *)
(*   "kinds"  every node kind: 4 targets x with/without value, 6 block kinds, import,   *)
(*            expr; pep526 on/off; default and non-default configuration                *)
(*   "kinds4" a thinner alphabet of the same, one node deeper                           *)
(*   "deco"   existing decorator stacks over {p, h} x hostile import visible or not x    *)
(*            3 x 3 placements                                                          *)
(*   "prefix" docstring / __future__ prefix x (otherwise) empty modules                 *)
(*   "given" / "replay"  trees handed in by the driver (the repository's claw data      *)
(*            packages abstracted to this grammar; a stored case being replayed)        *)
(* One JSON row per finished walk is printed when Emit: the program, the configuration, *)
(* Rule's edits, the walk's edits, evaluation counts and the nearest scope of each node.*)
EXTENDS Naturals, Sequences, FiniteSets, TLC, Json

CONSTANTS Slice, MaxNodes, MaxDepth, Legacy, Mutant, Emit, Given

VARIABLES prog, pc, conf, i, scopes, edits, decided
vars == <<prog, pc, conf, i, scopes, edits, decided>>

LegacyNames == {"async_no_scope", "copy_subexprs"}
MutantNames == {"no_pop_nested_class", "class_body_checked", "import_before_future",
                "method_decorated", "first_is_top", "subscript_checked", "end_line_from_start"}
ASSUME Legacy \subseteq LegacyNames /\ Mutant \subseteq MutantNames

-----------------------------------------------------------------------------
(* Grammar *)
N(k, ann, asy, decs, tgt, val, bk) ==
    [k |-> k, ann |-> ann, asy |-> asy, decs |-> decs, tgt |-> tgt, val |-> val, bk |-> bk, d |-> 0]
Func(ann, asy, decs) == N("func", ann, asy, decs, "-", FALSE, "-")
Class(decs)          == N("class", FALSE, FALSE, decs, "-", FALSE, "-")
Ann(tgt, val)        == N("ann", FALSE, FALSE, <<>>, tgt, val, "-")
Block(bk)            == N("block", FALSE, FALSE, <<>>, "-", FALSE, bk)
Leaf(k)              == N(k, FALSE, FALSE, <<>>, "-", FALSE, "-")

Targets    == {"name", "attr", "attrcall", "subscript"}
BlockKinds == {"if", "for", "while", "try", "with", "match"}
Places     == {"FIRST", "LAST", "LBH"}
DecoStacks == {<<>>, <<"p">>, <<"h">>, <<"h", "p">>, <<"p", "h">>, <<"h", "h">>}

(* "given": the trees come from the constant Given (real modules abstracted by the driver); *)
(* "replay": the same, under every configuration                                           *)
IsGiven == Slice \in {"given", "replay"}

IsCont(n) == n.k \in {"func", "class", "block"}
IsScopeNode(n) == n.k \in {"func", "class"}

SliceLeaves ==
    CASE Slice = "scope"  -> {Ann("name", TRUE), Leaf("pass")}
      [] Slice = "kinds"  -> {Ann(t, v) : t \in Targets, v \in BOOLEAN} \cup {Leaf("import"), Leaf("expr"), Leaf("pass")}
      [] Slice = "kinds4" -> {Ann(t, TRUE) : t \in Targets} \cup {Ann("name", FALSE), Leaf("import"), Leaf("pass")}
      [] Slice = "deco"   -> {Leaf("import"), Leaf("pass")}
      [] Slice = "prefix" -> {Ann("name", TRUE), Leaf("pass"), Leaf("import"), Leaf("doc"), Leaf("future")}
      [] OTHER            -> {}
SliceConts ==
    CASE Slice = "scope"  -> {Func(TRUE, FALSE, <<>>), Func(TRUE, TRUE, <<>>), Func(FALSE, FALSE, <<>>), Class(<<>>), Block("if")}
      [] Slice = "kinds"  -> {Func(a, s, <<>>) : a \in BOOLEAN, s \in BOOLEAN} \cup {Class(<<>>)} \cup {Block(b) : b \in BlockKinds}
      [] Slice = "kinds4" -> {Func(TRUE, FALSE, <<>>), Func(TRUE, TRUE, <<>>), Func(FALSE, TRUE, <<>>), Class(<<>>),
                              Block("for"), Block("try"), Block("match")}
      [] Slice = "deco"   -> {Func(TRUE, s, ds) : s \in BOOLEAN, ds \in DecoStacks} \cup {Class(ds) : ds \in DecoStacks}
      [] Slice = "prefix" -> {Func(TRUE, FALSE, <<>>), Class(<<>>)}
      [] OTHER            -> {}

(* A configuration: the three import-hook options plus "other" = some unrelated option   *)
(* differs from the default (as for every configuration made hookable by the registry).  *)
Conf(pep, pf, pt, other) == [pep |-> pep, pf |-> pf, pt |-> pt, other |-> other]
DefaultConf == Conf(TRUE, "LBH", "LAST", FALSE)
NoConf      == Conf(FALSE, "-", "-", FALSE)
IsDefaultConf(c) == c = DefaultConf
AllConfs == {Conf(p, f, t, o) : p \in BOOLEAN, f \in Places, t \in Places, o \in BOOLEAN}
SliceConfs ==
    CASE Slice = "scope"  -> {Conf(p, "LBH", "LAST", TRUE) : p \in BOOLEAN}
      [] Slice \in {"kinds", "kinds4"} -> {Conf(p, "LBH", "LAST", TRUE) : p \in BOOLEAN} \cup {DefaultConf}
      [] Slice = "deco"   -> {Conf(TRUE, f, t, TRUE) : f \in Places, t \in Places} \cup {DefaultConf}
      [] Slice = "prefix" -> {DefaultConf, Conf(TRUE, "LBH", "LAST", TRUE)}
      [] Slice = "given"  -> {DefaultConf, Conf(TRUE, "LBH", "LAST", TRUE), Conf(FALSE, "FIRST", "FIRST", TRUE)}
      [] OTHER            -> AllConfs

-----------------------------------------------------------------------------
(* Tree geometry over the preorder encoding (pure functions of a program P) *)
Nodes(P) == 1 .. Len(P)

(* parent of node j: the closest earlier node that is one level up; 0 = the module *)
Parent(P, j) ==
    IF P[j].d = 1 THEN 0
    ELSE CHOOSE p \in 1 .. (j - 1) : P[p].d = P[j].d - 1 /\ \A q \in (p + 1) .. (j - 1) : P[q].d >= P[j].d

RECURSIVE NearestScope(_, _)
(* the nearest enclosing LEXICAL scope of node j: a func/class node (sync or async), or 0 *)
NearestScope(P, j) ==
    LET p == Parent(P, j) IN
    IF p = 0 THEN 0 ELSE IF IsScopeNode(P[p]) THEN p ELSE NearestScope(P, p)

ScopeKind(P, s) == IF s = 0 THEN "module" ELSE P[s].k

RECURSIVE EnclosingScopes(_, _)
EnclosingScopes(P, j) ==
    LET s == NearestScope(P, j) IN IF s = 0 THEN {0} ELSE {s} \cup EnclosingScopes(P, s)

(* the module prefix: docstring and __future__ imports *)
IsPrefixNode(n) == n.k \in {"doc", "future"}
PrefixLen(P) == Cardinality({j \in Nodes(P) : \A q \in 1 .. j : IsPrefixNode(P[q])})

(* an import of the hostile decorator is lexically visible at node j (document order,   *)
(* same or enclosing scope)                                                             *)
HostileVisible(P, j) ==
    \E q \in 1 .. (j - 1) : P[q].k = "import" /\ NearestScope(P, q) \in EnclosingScopes(P, j)

LeadingHostile(ds) == Cardinality({q \in 1 .. Len(ds) : \A r \in 1 .. q : ds[r] = "h"})

(* 0-based index of the inserted decorator in the new decorator list *)
DecoIndex(place, ds, known) ==
    CASE place = "FIRST" -> Len(ds)
      [] place = "LAST"  -> 0
      [] place = "LBH"   -> IF known THEN LeadingHostile(ds) ELSE 0

PlaceOf(c, n) == IF n.k = "class" THEN c.pt ELSE c.pf

-----------------------------------------------------------------------------
(* Edits.  at = preorder index of the node the edit is attached to (0 = module);        *)
(* pos = index of the new decorator / index of the import in the module body / 1 = the   *)
(* statement right after; line = the node whose location the inserted node carries;      *)
(* conf = a conf= keyword is passed; reeval = original sub-expressions that the inserted *)
(* node evaluates itself.                                                                *)
(* Location: the inserted node starts where its host (node `line`) starts; eline / ecol  *)
(* name the end point of the host from which its end line / end column are copied.  Host  *)
(* statements may span several lines and may end left of the column they start in, so    *)
(* only (eline, ecol) = ("end", "end") -- or ("start", "start") -- is a position of the   *)
(* host; a mixed pair can lie before the start (an invalid range for compile()).         *)
Edit(kind, at, pos, line, ck, re) ==
    [kind |-> kind, at |-> at, pos |-> pos, line |-> line, conf |-> ck, reeval |-> re, eline |-> "end", ecol |-> "end"]
(* as placed by the walk (copy_node_metadata) *)
WalkLoc(e) == IF "end_line_from_start" \in Mutant THEN [e EXCEPT !.eline = "start"] ELSE e

ImportEdit(P, plen) ==
    IF plen = Len(P) THEN {}        \* an (otherwise) empty module gets no import
    ELSE {Edit("import", 0, plen, plen + 1, FALSE, {})}

DecorEditAt(P, c, j, idx) == Edit("decorate", j, idx, j, ~IsDefaultConf(c), {})
DecorEdit(P, c, j, known) == DecorEditAt(P, c, j, DecoIndex(PlaceOf(c, P[j]), P[j].decs, known))

(* what Python itself evaluates (PEP 526): annotations of annotated assignments are      *)
(* evaluated in module and class scope only; a non-name base always                      *)
PyEval(P, j, part) ==
    IF part = "ann" /\ P[j].k = "ann" THEN (IF ScopeKind(P, NearestScope(P, j)) = "func" THEN 0 ELSE 1) ELSE 1

(* copy = the inserted call is built from the original annotation / target-base nodes   *)
(* (0.23.0); otherwise it evaluates the annotation itself only where Python does not    *)
CheckEditC(P, c, j, copy) ==
    LET re == IF copy
              THEN {"ann"} \cup (IF P[j].tgt = "attrcall" THEN {"base"} ELSE {})
              ELSE (IF PyEval(P, j, "ann") = 0 THEN {"ann"} ELSE {})
    IN Edit("check", j, 1, j, ~IsDefaultConf(c), re)
CheckEdit(P, c, j) == CheckEditC(P, c, j, FALSE)

Checkable(n) == n.k = "ann" /\ n.val /\ n.tgt \in {"name", "attr", "attrcall"}

-----------------------------------------------------------------------------
(* THE RULE (declarative restatement of the property) *)
Rule(P, c) ==
    ImportEdit(P, PrefixLen(P))
    \cup {DecorEdit(P, c, j, HostileVisible(P, j)) : j \in {q \in Nodes(P) : P[q].k = "class"}}
    \cup {DecorEdit(P, c, j, HostileVisible(P, j)) :
             j \in {q \in Nodes(P) : P[q].k = "func" /\ P[q].ann /\ ScopeKind(P, NearestScope(P, q)) # "class"}}
    \cup {CheckEdit(P, c, j) :
             j \in {q \in Nodes(P) : c.pep /\ Checkable(P[q]) /\ ScopeKind(P, NearestScope(P, q)) # "class"}}

(* evaluable original sub-expressions of a node *)
Parts(n) ==
    CASE n.k = "func"  -> (IF n.ann THEN {"ann"} ELSE {}) \cup {"dec"}
      [] n.k = "class" -> {"dec"}
      [] n.k = "ann"   -> {"ann"} \cup (IF n.val THEN {"val"} ELSE {}) \cup (IF n.tgt \in {"attrcall", "subscript"} THEN {"base"} ELSE {})
      [] n.k = "block" -> IF n.bk = "try" THEN {} ELSE {"cond"}
      [] n.k = "expr"  -> {"e"}
      [] OTHER         -> {}

EvalCount(P, E, j, part) ==
    PyEval(P, j, part) + Cardinality({e \in E : e.kind = "check" /\ e.at = j /\ part \in e.reeval})

(* how many decorations reach function j: its own, plus the decoration of its class      *)
Cover(P, E, j) ==
    Cardinality({e \in E : e.kind = "decorate" /\ e.at = j})
    + (LET s == NearestScope(P, j) IN
       IF s # 0 /\ P[s].k = "class" /\ \E e \in E : e.kind = "decorate" /\ e.at = s THEN 1 ELSE 0)

-----------------------------------------------------------------------------
(* BUILD *)
GrowOK(n, dd) ==
    /\ Len(prog) < MaxNodes
    /\ dd \in 1 .. MaxDepth
    /\ IF prog = <<>> THEN dd = 1
       ELSE LET last == prog[Len(prog)] IN IF IsCont(last) THEN dd = last.d + 1 ELSE dd <= last.d
    /\ IsCont(n) => dd < MaxDepth /\ Len(prog) + 1 < MaxNodes
    /\ n.k = "doc" => prog = <<>>
    /\ n.k = "future" => dd = 1 /\ \A q \in Nodes(prog) : IsPrefixNode(prog[q])

Grow(n, dd) ==
    /\ pc = "build" /\ ~IsGiven
    /\ GrowOK(n, dd)
    /\ prog' = Append(prog, [n EXCEPT !.d = dd])
    /\ UNCHANGED <<pc, conf, i, scopes, edits, decided>>

Complete == IF prog = <<>> THEN TRUE ELSE ~IsCont(prog[Len(prog)])

-----------------------------------------------------------------------------
(* WALK *)
Scope(kind, at, d, imp) == [kind |-> kind, at |-> at, d |-> d, imp |-> imp]
Top == scopes[Len(scopes)]

(* visit_Module: scan the body for the docstring / __future__ prefix *)
RECURSIVE ScanPrefix(_, _)
ScanPrefix(P, q) ==
    IF q <= Len(P) /\ (P[q].k = "doc" \/ (P[q].k = "future" /\ "import_before_future" \notin Mutant))
    THEN ScanPrefix(P, q + 1) ELSE q - 1

EnterModule(c) ==
    /\ pc = "build" /\ Complete
    /\ pc' = "walk" /\ conf' = c /\ i' = 1
    /\ scopes' = <<Scope("module", 0, 0, FALSE)>>
    /\ edits' = {WalkLoc(e) : e \in ImportEdit(prog, ScanPrefix(prog, 1))}
    /\ decided' = FALSE
    /\ UNCHANGED prog

MustLeave == Len(scopes) > 1 /\ (IF i > Len(prog) THEN TRUE ELSE prog[i].d <= Top.d)
AtNode    == pc = "walk" /\ i <= Len(prog) /\ ~MustLeave
InClass   == Top.kind = "class"

Leave ==
    /\ pc = "walk" /\ MustLeave
    /\ scopes' = SubSeq(scopes, 1, Len(scopes) - 1)
    /\ UNCHANGED <<prog, pc, conf, i, edits, decided>>

NeedsDecor(n) ==
    \/ n.k = "class"
    \/ n.k = "func" /\ n.ann /\ (~InClass \/ "method_decorated" \in Mutant)

PlaceDecorator ==
    /\ AtNode /\ ~decided /\ NeedsDecor(prog[i])
    /\ edits' = edits \cup
          {WalkLoc(IF "first_is_top" \in Mutant /\ PlaceOf(conf, prog[i]) = "FIRST"      \* insert(0) instead of append
                   THEN DecorEditAt(prog, conf, i, 0) ELSE DecorEdit(prog, conf, i, Top.imp))}
    /\ decided' = TRUE
    /\ UNCHANGED <<prog, pc, conf, i, scopes>>

EnterClass ==
    /\ AtNode /\ prog[i].k = "class" /\ decided
    /\ scopes' = Append(scopes,
          Scope("class", i,
                IF "no_pop_nested_class" \in Mutant /\ Len(scopes) > 1 THEN Top.d ELSE prog[i].d,
                Top.imp))
    /\ i' = i + 1 /\ decided' = FALSE
    /\ UNCHANGED <<prog, pc, conf, edits>>

EnterFunc ==
    /\ AtNode /\ prog[i].k = "func" /\ (decided \/ ~NeedsDecor(prog[i]))
    /\ scopes' = IF prog[i].asy /\ "async_no_scope" \in Legacy THEN scopes
                 ELSE Append(scopes, Scope("func", i, prog[i].d, Top.imp))
    /\ i' = i + 1 /\ decided' = FALSE
    /\ UNCHANGED <<prog, pc, conf, edits>>

VisitAnnAssign ==
    /\ AtNode /\ prog[i].k = "ann"
    /\ edits' = IF /\ conf.pep /\ prog[i].val
                   /\ (~InClass \/ "class_body_checked" \in Mutant)
                   /\ (prog[i].tgt \in {"name", "attr", "attrcall"} \/ "subscript_checked" \in Mutant)
                THEN edits \cup {WalkLoc(CheckEditC(prog, conf, i, "copy_subexprs" \in Legacy))} ELSE edits
    /\ i' = i + 1
    /\ UNCHANGED <<prog, pc, conf, scopes, decided>>

VisitImport ==
    /\ AtNode /\ prog[i].k = "import"
    /\ scopes' = [scopes EXCEPT ![Len(scopes)].imp = TRUE]
    /\ i' = i + 1
    /\ UNCHANGED <<prog, pc, conf, edits, decided>>

VisitOther ==
    /\ AtNode /\ prog[i].k \in {"block", "doc", "future", "expr", "pass"}
    /\ i' = i + 1
    /\ UNCHANGED <<prog, pc, conf, scopes, edits, decided>>

-----------------------------------------------------------------------------
(* the emitted case-table row: the program, the configuration, the Rule's edit set, the  *)
(* faithful walk's edit set and the evaluation counts of every original sub-expression   *)
Evals(P, E) == {[at |-> j, part |-> p, n |-> EvalCount(P, E, j, p), py |-> PyEval(P, j, p)] :
                    j \in Nodes(P), p \in {"ann", "val", "base", "cond", "e", "dec"}}
EvalRows(P, E) == {r \in Evals(P, E) : r.part \in Parts(P[r.at])}

Row == [slice |-> Slice, prog |-> prog, conf |-> conf,
        rule |-> Rule(prog, conf), walk |-> edits,
        evalRule |-> EvalRows(prog, Rule(prog, conf)), evalWalk |-> EvalRows(prog, edits),
        scope |-> [j \in Nodes(prog) |-> NearestScope(prog, j)]]

Finish ==
    /\ pc = "walk" /\ i > Len(prog) /\ Len(scopes) = 1
    /\ pc' = "done"
    /\ Emit => PrintT(ToJson(Row))
    /\ UNCHANGED <<prog, conf, i, scopes, edits, decided>>

Init ==
    /\ IF IsGiven THEN prog \in Given ELSE prog = <<>>
    /\ pc = "build" /\ conf = NoConf /\ i = 0 /\ scopes = <<>> /\ edits = {} /\ decided = FALSE

Alphabet == SliceLeaves \cup SliceConts
Next ==
    \/ \E n \in Alphabet, dd \in 1 .. MaxDepth : Grow(n, dd)
    \/ \E c \in SliceConfs : EnterModule(c)
    \/ Leave \/ PlaceDecorator \/ EnterClass \/ EnterFunc
    \/ VisitAnnAssign \/ VisitImport \/ VisitOther \/ Finish

Spec == Init /\ [][Next]_vars

-----------------------------------------------------------------------------
(* PROPERTIES *)
TypeOK ==
    /\ pc \in {"build", "walk", "done"}
    /\ \A j \in Nodes(prog) : prog[j].d \in 1 .. Len(prog)
    /\ i \in 0 .. (Len(prog) + 1)
    /\ \A e \in edits : e.kind \in {"import", "decorate", "check"} /\ e.at \in 0 .. Len(prog)

(* the scope stack is the chain of lexical scopes of the node about to be visited *)
ScopesFaithful == AtNode => Top.at = NearestScope(prog, i)

(* the transformer never produces an edit the rule does not demand ... *)
WalkSubRule == pc \in {"walk", "done"} => edits \subseteq Rule(prog, conf)
(* ... and at the end has produced all of them *)
WalkEqRule == pc = "done" => edits = Rule(prog, conf)

(* every annotated function is type-checked by exactly one decoration (its own or its    *)
(* class's), every class exactly once                                                    *)
DecoratedOnce ==
    pc = "done" =>
        /\ \A j \in Nodes(prog) : prog[j].k = "func" /\ prog[j].ann => Cover(prog, edits, j) = 1
        /\ \A j \in Nodes(prog) : prog[j].k = "class" =>
               Cardinality({e \in edits : e.kind = "decorate" /\ e.at = j}) = 1

(* class-body annotations are never checked; checks only where a value was assigned *)
ChecksWellPlaced ==
    \A e \in edits : e.kind = "check" =>
        /\ prog[e.at].k = "ann" /\ prog[e.at].val /\ conf.pep
        /\ ScopeKind(prog, NearestScope(prog, e.at)) # "class"
        /\ prog[e.at].tgt # "subscript"

(* every inserted node carries the full location (start line and column, end line and   *)
(* column) of an existing sibling / host node: a valid range inside the host's range     *)
LinePreserved ==
    \A e \in edits :
        /\ e.line \in Nodes(prog)
        /\ e.eline = e.ecol /\ e.eline \in {"start", "end"}
        /\ e.kind \in {"decorate", "check"} => e.line = e.at
        /\ e.kind = "import" => prog[e.line].d = 1 /\ ~IsPrefixNode(prog[e.line])
                                /\ \A q \in 1 .. (e.line - 1) : IsPrefixNode(prog[q])

(* the import sits after the docstring and every __future__ import, and only there *)
ImportPlaced ==
    pc \in {"walk", "done"} =>
        /\ Cardinality({e \in edits : e.kind = "import"}) = (IF \E q \in Nodes(prog) : ~IsPrefixNode(prog[q]) THEN 1 ELSE 0)
        /\ \A e \in edits : e.kind = "import" =>
              /\ \A q \in Nodes(prog) : IsPrefixNode(prog[q]) => q <= e.pos
              /\ \A q \in 1 .. e.pos : IsPrefixNode(prog[q])

(* decorator index per placement option *)
DecoIndexOK ==
    \A e \in edits : e.kind = "decorate" =>
        LET n == prog[e.at]  pl == PlaceOf(conf, n) IN
        /\ e.pos \in 0 .. Len(n.decs)
        /\ pl = "LAST" => e.pos = 0
        /\ pl = "FIRST" => e.pos = Len(n.decs)
        /\ pl = "LBH" => /\ \A q \in 1 .. e.pos : n.decs[q] = "h"          \* only hostile ones stay above
                         /\ HostileVisible(prog, e.at) /\ e.pos < Len(n.decs) => n.decs[e.pos + 1] # "h"
                         /\ ~HostileVisible(prog, e.at) => e.pos = 0
        /\ e.conf = ~IsDefaultConf(conf)

(* each original expression is evaluated exactly once (never more than Python does,      *)
(* except that a checked local annotation, which Python never evaluates, is evaluated    *)
(* once by the check)                                                                    *)
EvalOnce ==
    pc = "done" =>
        \A r \in EvalRows(prog, edits) :
            /\ r.n <= 1
            /\ r.py = 1 => r.n = 1
            /\ (\E e \in edits : e.kind = "check" /\ e.at = r.at) /\ r.part = "ann" => r.n = 1

ScopeBalanced == pc = "done" => Len(scopes) = 1
=============================================================================
