------------------------------ MODULE Wrapper ------------------------------
(***************************************************************************)
(* The type-checking wrapper that @beartype generates around a callable    *)
(* (C04): beartype/_decor/_nontype/_wrap/_wrapargs.py  code_check_args,    *)
(* _wrapreturn.py, wrapmain.py, _data/check/code/func/datacodefuncwrap.py  *)
(* (ARG_KIND_TO_CODE_LOCALIZE, CODE_INIT_ARGS_LEN, CODE_CALL_CHECKED),     *)
(* _util/func/arg/utilfuncargiter.py  iter_func_args.                      *)
(*                                                                         *)
(* Two halves, as in the code:                                             *)
(*   decoration time   GenCode(sig): one localisation snippet per          *)
(*                     ANNOTATED parameter, carrying  arg_index = position *)
(*                     of the parameter in iter_func_args order  and its   *)
(*                     name; Keywordable(sig) = names of flexible +        *)
(*                     keyword-only parameters (only materialised when a   *)
(*                     variadic keyword parameter exists); NeedArgsLen.    *)
(*   call time         wrapper(star-args, star-star-kwargs): one action    *)
(*                     per generated clause: InitArgsLen, CheckPosOnly,    *)
(*                     CheckFlex, CheckVarPos, CheckKwOnly, CheckVarKw,    *)
(*                     Raise, CallOriginal, CheckReturn.                   *)
(* The wrapper never binds arguments itself: it indexes args / probes      *)
(* kwargs, and only the call-through to __beartype_func with the same      *)
(* args and kwargs makes CPython bind.  The declarative side is            *)
(* PyBind(sig, call) = CPython's binding rules, and  Expected = the        *)
(* (parameter, value) pairs the property wants checked.  The invariants    *)
(* relate the two.                                                         *)
(*                                                                         *)
(* Values are identified by how they were passed: "p1","p2",.. (i-th       *)
(* positional), a keyword's value by the keyword's name, "D" = the default *)
(* of an unpassed parameter (which VIOLATES the annotation, so a wrapper   *)
(* that checks defaults is visible).  Every annotation behaves like `int`  *)
(* (it rejects None).  A tag says what the value is:  "g" an ordinary good *)
(* value, "b" an ordinary bad one, and the Specials  "n" = the object None *)
(* (bad), "z" = a falsy bad value other than None, "o" = a falsy GOOD      *)
(* value (the int 0): a wrapper that takes None or falsiness for "not      *)
(* passed" skips a check it owes.                                          *)
(*                                                                         *)
(* Mode "check": the state machine below is explored action by action.     *)
(* Mode "emit" : the state is the signature only; one JSON row per         *)
(*               signature carries, for every call, PyBind and the final   *)
(*               wrapper frame computed by Run = iteration of the very     *)
(*               same step operators (case table for the conformance       *)
(*               driver); the clauses are re-evaluated on every row.       *)
(* Mutant # "none" switches on one plausible wrong design; TLC must reject *)
(* each (non-vacuity).                                                     *)
(***************************************************************************)
EXTENDS Naturals, Sequences, FiniteSets, TLC, Json

CONSTANTS MaxPosOnly, MaxFlex, MaxKwOnly,  \* parameters of each named kind (variadics: at most one each)
          MaxSurplus,   \* positional values beyond the number of positional parameters
          MaxKw,        \* keywords per call
          MaxBad,       \* values tagged "b" per call
          Specials,     \* subset of {"n", "z", "o"}: at most one special value per call, and it is the
                        \*   only non-"g" value of that call (passed positionally or by keyword, hence also
                        \*   into star-args / star-star-kw)
          Extras,       \* keyword names that no parameter has
          VarNames,     \* TRUE: the names of *args / **kw themselves are offered as keywords
          Mode,         \* "check" | "emit"
          ShardPos,     \* emit mode: print rows only for signatures with this many positional
          ShardKw,      \*   (pos-only + flexible) and this many keyword-only parameters; 99 = any
          ShardMod, ShardRem,  \* ... and SigCode(sig) % ShardMod = ShardRem  (splits big shards further)
          Mutant        \* "none" | "index_off" | "kwable_posonly" | "slice_early" | "check_defaults"
                        \* | "call_twice" | "none_unpassed" | "kind_from_inner"

PON == <<"a1", "a2", "a3">>          \* positional-only names
FLN == <<"b1", "b2", "b3">>          \* flexible names
KWN == <<"k1", "k2", "k3">>          \* keyword-only names
VPN == "args"
VKN == "kw"
PV  == <<"p1", "p2", "p3", "p4", "p5", "p6", "p7", "p8", "p9">>   \* ids of positional values
NameOrder == PON \o FLN \o KWN \o <<VPN, VKN, "x1", "x2", "x3">>   \* canonical order of keyword names
Tags == {"g", "b"}                    \* the tags combined freely (up to MaxBad "b" per call)
IsBad(t) == t \in {"b", "n", "z"}     \* violates the annotation
Rank(k) == CASE k = "posonly" -> 1 [] k = "flex" -> 2 [] k = "varpos" -> 3 [] k = "kwonly" -> 4 [] k = "varkw" -> 5

Min(a, b) == IF a < b THEN a ELSE b
Range(s) == { s[i] : i \in DOMAIN s }
EmptyFn == [x \in {} |-> "g"]

(* ---- signatures ------------------------------------------------------------------ *)
Count(sig, k) == Cardinality({ i \in DOMAIN sig : sig[i].kind = k })
Has(sig, k) == \E i \in DOMAIN sig : sig[i].kind = k
NPos(sig) == Count(sig, "posonly") + Count(sig, "flex")         \* they form a prefix of sig
Named(sig) == { i \in DOMAIN sig : sig[i].kind \in {"posonly", "flex", "kwonly"} }
NamesOf(sig, kinds) == { sig[i].name : i \in { j \in DOMAIN sig : sig[j].kind \in kinds } }

\* legality of appending a parameter (Python grammar + "non-default follows default")
CanAdd(sig, kind, dflt) ==
  /\ IF sig = <<>> THEN TRUE
     ELSE IF Rank(sig[Len(sig)].kind) = Rank(kind) THEN kind \in {"posonly", "flex", "kwonly"}
     ELSE Rank(sig[Len(sig)].kind) < Rank(kind)
  /\ kind = "posonly" => Count(sig, kind) < MaxPosOnly
  /\ kind = "flex"    => Count(sig, kind) < MaxFlex
  /\ kind = "kwonly"  => Count(sig, kind) < MaxKwOnly
  /\ kind \in {"varpos", "varkw"} => ~dflt
  /\ (kind \in {"posonly", "flex"} /\ ~dflt) =>
        \A i \in DOMAIN sig : ~sig[i].dflt
NewName(sig, kind) ==
  CASE kind = "posonly" -> PON[Count(sig, kind) + 1]
    [] kind = "flex"    -> FLN[Count(sig, kind) + 1]
    [] kind = "kwonly"  -> KWN[Count(sig, kind) + 1]
    [] kind = "varpos"  -> VPN
    [] kind = "varkw"   -> VKN

(* ---- calls ----------------------------------------------------------------------- *)
KwPool(sig) == NamesOf(sig, {"posonly", "flex", "kwonly"}) \cup Extras
               \cup (IF VarNames THEN NamesOf(sig, {"varpos", "varkw"}) ELSE {})
NBad(c) == Cardinality({ i \in DOMAIN c.pos : c.pos[i] = "b" }) + Cardinality({ n \in DOMAIN c.kw : c.kw[n] = "b" })
Calls(sig) ==
  LET ks   == { K \in SUBSET KwPool(sig) : Cardinality(K) <= MaxKw }
      base == { c \in UNION { { [pos |-> p, kw |-> k] : p \in [1..n -> Tags], k \in UNION { [K -> Tags] : K \in ks } }
                              : n \in 0..(NPos(sig) + MaxSurplus) } : NBad(c) <= MaxBad }
      good == { c \in base : NBad(c) = 0 }
  IN base \cup UNION { { [c EXCEPT !.pos[i] = t] : i \in DOMAIN c.pos, t \in Specials } : c \in good }
          \cup UNION { { [c EXCEPT !.kw[nm] = t] : nm \in DOMAIN c.kw, t \in Specials } : c \in good }

PosIdx(v) == CHOOSE i \in DOMAIN PV : PV[i] = v
TagOf(c, v) == IF v = "D" THEN "b"                       \* defaults violate their annotation
               ELSE IF v \in DOMAIN c.kw THEN c.kw[v]
               ELSE c.pos[PosIdx(v)]

(* ---- declarative: CPython's argument binding ------------------------------------- *)
\* what the function object knows about its parameters (co_argcount, co_posonlyargcount,
\* co_kwonlyargcount, co_varnames, __defaults__, __kwdefaults__, co_flags, __annotations__)
Facts(sig) ==
  LET np == NPos(sig) IN
  [np    |-> np,
   pos   |-> [i \in 1..np |-> sig[i].name],                     \* positional parameters, in order
   byKw  |-> NamesOf(sig, {"flex", "kwonly"}),                   \* parameters a keyword can name
   named |-> { sig[i].name : i \in Named(sig) },
   req   |-> { sig[i].name : i \in { j \in Named(sig) : ~sig[j].dflt } },
   vp    |-> Has(sig, "varpos"), vk |-> Has(sig, "varkw"),
   ann   |-> { sig[i].name : i \in { j \in DOMAIN sig : sig[j].ann } },
   order |-> [i \in DOMAIN sig |-> sig[i].name]]

NoBind == [err |-> TRUE, one |-> EmptyFn, star |-> <<>>, kw |-> {}]
PyBindF(F, c) ==
  LET n      == Len(c.pos)
      K      == DOMAIN c.kw
      filled == { F.pos[i] : i \in 1..Min(n, F.np) }      \* filled positionally
      named  == K \cap F.byKw                               \* keywords that name a parameter
      excess == K \ F.byKw                                  \* incl. names of positional-only parameters
      tooMany  == n > F.np /\ ~F.vp
      multiple == named \cap filled # {}
      unexpect == excess # {} /\ ~F.vk
      missing  == F.req \ (filled \cup named) # {}
  IN IF tooMany \/ multiple \/ unexpect \/ missing THEN NoBind
     ELSE [err  |-> FALSE,
           one  |-> [nm \in F.named |->
                       IF nm \in filled THEN PV[CHOOSE i \in 1..F.np : F.pos[i] = nm]
                       ELSE IF nm \in named THEN nm ELSE "D"],
           star |-> IF F.vp /\ n > F.np THEN [j \in 1..(n - F.np) |-> PV[F.np + j]] ELSE <<>>,
           kw   |-> excess]
PyBind(sig, c) == PyBindF(Facts(sig), c)

\* what C04 wants checked: every PASSED value, against the parameter it is bound to
ExpectedF(F, B) ==
  IF B.err THEN {}
  ELSE { <<nm, B.one[nm]>> : nm \in { x \in F.named \cap F.ann : B.one[x] # "D" } }
       \cup (IF VPN \in F.ann THEN { <<VPN, B.star[j]>> : j \in DOMAIN B.star } ELSE {})
       \cup (IF VKN \in F.ann THEN { <<VKN, nm>> : nm \in B.kw } ELSE {})
Expected(sig, B) == ExpectedF(Facts(sig), B)
BadPairs(c, S) == { e \in S : IsBad(TagOf(c, e[2])) }
\* the first parameter (signature order) one of whose bound values is bad
FirstBadF(F, c, E) ==
  LET bad == { e[1] : e \in BadPairs(c, E) }
      i0  == CHOOSE i \in DOMAIN F.order : F.order[i] \in bad /\ (\A j \in 1..(i - 1) : F.order[j] \notin bad)
  IN F.order[i0]
FirstBad(sig, c, B) == FirstBadF(Facts(sig), c, Expected(sig, B))

(* ---- decoration time: the generated code ------------------------------------------ *)
\* arg_index = enumerate(iter_func_args(...)) = 0-based position in the signature
ArgIndex(sig, i) ==
  IF Mutant = "index_off" /\ sig[i].kind = "flex" /\ Count(sig, "posonly") > 0 THEN i - 2 ELSE i - 1
GenChecks(sig) ==
  LET all == [i \in DOMAIN sig |-> [kind |-> sig[i].kind, name |-> sig[i].name, idx |-> ArgIndex(sig, i),
                                    ann |-> sig[i].ann, dflt |-> sig[i].dflt]]
  IN SelectSeq(all, LAMBDA s : s.ann)
NeedArgsLen(sig) == \E i \in DOMAIN sig : sig[i].ann /\ sig[i].kind \in {"posonly", "flex"}
Keywordable(sig) ==        \* __beartype_args_name_keywordable
  IF ~Has(sig, "varkw") THEN {}
  ELSE NamesOf(sig, {"flex", "kwonly"}) \cup (IF Mutant = "kwable_posonly" THEN NamesOf(sig, {"posonly"}) ELSE {})

\* the wrapper function object: its clauses and the hidden defaults they read
\* (func = __beartype_func, the original: what CPython consults to bind the call-through)
GenCode(sig) == [G |-> GenChecks(sig), needlen |-> NeedArgsLen(sig), kwable |-> Keywordable(sig), func |-> Facts(sig)]

Bodies == {"return", "raise"}            \* the original returns a fresh object / raises a fresh exception
Rets   == {"unann", "good", "bad"}       \* return annotation: none / satisfied / violated by that object
Variants == [body : Bodies, ret : Rets]
VariantSeq == << [body |-> "return", ret |-> "unann"], [body |-> "return", ret |-> "good"],
                 [body |-> "return", ret |-> "bad"],   [body |-> "raise",  ret |-> "unann"],
                 [body |-> "raise",  ret |-> "good"],  [body |-> "raise",  ret |-> "bad"] >>

(* ---- call time: the wrapper frame and its steps ------------------------------------ *)
\* what the wrapper's steps read: its own code, args (n values), kwargs (keys K); sig is read
\* only by the call-through (CPython binding the original's parameters)
Ctx(sig, c, code) == [sig |-> sig, c |-> c, G |-> code.G, needlen |-> code.needlen, kwable |-> code.kwable,
                      func |-> code.func, n |-> Len(c.pos), K |-> DOMAIN c.kw]

(* ---- the kind of the decorated callable and of its wrapper ------------------------- *)
\* What is handed to @beartype is a synchronous def or a coroutine function (dec); it may be a
\* functools.wraps facade -- signature (star-args, star-star-kwargs), __wrapped__ and __annotations__ copied
\* -- around an inner callable of ANOTHER kind (inner).  Parameter names and kinds are read from the
\* innermost wrappee (func_wrappee_wrappee); the KIND of the generated wrapper ("def" or "async def ..
\* await") must follow the callable that is decorated and called (func_wrappee), whatever it wraps.
ShapeSeq == << [dec |-> "sync", inner |-> "none"], [dec |-> "coro", inner |-> "none"],
               [dec |-> "sync", inner |-> "sync"], [dec |-> "sync", inner |-> "coro"],
               [dec |-> "sync", inner |-> "gen"] >>
Innermost(sh) == IF sh.inner = "none" THEN sh.dec ELSE sh.inner
\* is_func_coro(code object of ...): mutant "kind_from_inner" reads the innermost wrappee's code object
WrapperKind(sh) ==
  IF Mutant = "kind_from_inner" THEN (IF Innermost(sh) = "coro" THEN "coro" ELSE "sync") ELSE sh.dec
\* the caller drives the decorated callable the way its own kind demands (plain call / await); a wrapper
\* of the other kind hands back an un-awaited coroutine: nothing is checked, nothing runs
KindsOK == \A j \in DOMAIN ShapeSeq : WrapperKind(ShapeSeq[j]) = ShapeSeq[j].dec

Idle == [pc |-> "idle", i |-> 1, alen |-> 0, checked |-> <<>>, ran |-> 0, recv |-> NoBind, out |-> "", blame |-> ""]
Enter(x) == [Idle EXCEPT !.pc = IF x.needlen THEN "argslen" ELSE IF x.G = <<>> THEN "call" ELSE "check"]

Advance(x, w) == IF w.i < Len(x.G) THEN [w EXCEPT !.i = @ + 1] ELSE [w EXCEPT !.pc = "call"]
\* "if not isinstance(pith, int): raise" over the values localised by one snippet, in order
CheckVals(x, w, vals) ==
  LET nm   == x.G[w.i].name
      bads == { j \in DOMAIN vals : IsBad(TagOf(x.c, vals[j])) }
  IN IF bads = {}
     THEN Advance(x, [w EXCEPT !.checked = @ \o [j \in DOMAIN vals |-> <<nm, vals[j]>>]])
     ELSE LET j0 == CHOOSE j \in bads : \A k \in bads : j <= k
          IN [w EXCEPT !.checked = @ \o [j \in 1..j0 |-> <<nm, vals[j]>>], !.pc = "raise"]
Unpassed(s) == IF Mutant = "check_defaults" /\ s.dflt THEN <<"D">> ELSE <<>>    \* the sentinel: nothing to check
\* kwargs.get(name, SENTINEL): the value passed under that keyword.  (Mutant "none_unpassed": the lookup
\* is kwargs.get(name) and None stands for "not passed", so an explicitly passed None is never checked.)
ByKeyword(x, s) == IF Mutant = "none_unpassed" /\ x.c.kw[s.name] = "n" THEN Unpassed(s) ELSE <<s.name>>

StepArgsLen(x, w) == [w EXCEPT !.alen = x.n, !.pc = "check"]
\* if __beartype_args_len > idx: pith = args[idx]
StepPosOnly(x, w) == LET s == x.G[w.i] IN
  CheckVals(x, w, IF w.alen > s.idx THEN <<PV[s.idx + 1]>> ELSE <<>>)
\* pith = args[idx] if __beartype_args_len > idx else kwargs.get(name, SENTINEL)
StepFlex(x, w) == LET s == x.G[w.i] IN
  CheckVals(x, w, IF w.alen > s.idx THEN <<PV[s.idx + 1]>> ELSE IF s.name \in x.K THEN ByKeyword(x, s) ELSE Unpassed(s))
\* for pith in args[idx:]
StepVarPos(x, w) == LET s == x.G[w.i]
                        from == IF Mutant = "slice_early" /\ s.idx > 0 THEN s.idx - 1 ELSE s.idx IN
  CheckVals(x, w, IF x.n > from THEN [j \in 1..(x.n - from) |-> PV[from + j]] ELSE <<>>)
\* pith = kwargs.get(name, SENTINEL)
StepKwOnly(x, w) == LET s == x.G[w.i] IN
  CheckVals(x, w, IF s.name \in x.K THEN ByKeyword(x, s) ELSE Unpassed(s))
\* for pith in (kwargs[k] for k in kwargs.keys() - keywordable); the iteration order of that
\* set is unspecified in Python: a canonical order is used here (unobservable: same parameter)
StepVarKw(x, w) ==
  CheckVals(x, w, SelectSeq(NameOrder, LAMBDA nm : nm \in x.K \ x.kwable))
StepRaise(x, w) == [w EXCEPT !.out = "ParamViolation", !.blame = x.G[w.i].name, !.pc = "done"]
\* call-through to __beartype_func with args/kwargs unchanged: CPython binds; the body runs iff binding succeeds
StepCall(x, v, w) ==
  LET B == PyBindF(x.func, x.c) IN
  IF B.err THEN [w EXCEPT !.out = "TypeError", !.pc = "done"]
  ELSE LET w1 == [w EXCEPT !.ran = @ + (IF Mutant = "call_twice" THEN 2 ELSE 1), !.recv = B] IN
       IF v.body = "raise" THEN [w1 EXCEPT !.out = "exc", !.pc = "done"]          \* propagates unchanged
       ELSE IF v.ret = "unann" THEN [w1 EXCEPT !.out = "ok", !.pc = "done"]        \* returned as is
       ELSE [w1 EXCEPT !.pc = "ret"]
StepRet(x, v, w) == [w EXCEPT !.out = IF v.ret = "good" THEN "ok" ELSE "ReturnViolation", !.pc = "done"]

CurKind(G, w) == IF w.pc = "check" THEN G[w.i].kind ELSE "-"
Step(x, v, w) ==
  CASE w.pc = "argslen" -> StepArgsLen(x, w)
    [] w.pc = "check" /\ CurKind(x.G, w) = "posonly" -> StepPosOnly(x, w)
    [] w.pc = "check" /\ CurKind(x.G, w) = "flex"    -> StepFlex(x, w)
    [] w.pc = "check" /\ CurKind(x.G, w) = "varpos"  -> StepVarPos(x, w)
    [] w.pc = "check" /\ CurKind(x.G, w) = "kwonly"  -> StepKwOnly(x, w)
    [] w.pc = "check" /\ CurKind(x.G, w) = "varkw"   -> StepVarKw(x, w)
    [] w.pc = "raise" -> StepRaise(x, w)
    [] w.pc = "call"  -> StepCall(x, v, w)
    [] w.pc = "ret"   -> StepRet(x, v, w)
RECURSIVE RunFrom(_, _, _)
RunFrom(x, v, w) == IF w.pc = "done" THEN w ELSE RunFrom(x, v, Step(x, v, w))
\* the frame just before the call-through (or the final frame of a raised violation): variant-independent
RECURSIVE RunPre(_, _)
RunPre(x, w) == IF w.pc \in {"call", "done"} THEN w ELSE RunPre(x, Step(x, VariantSeq[1], w))
Run(x, v) == RunFrom(x, v, Enter(x))

(* ---- what C04 demands of a finished call ------------------------------------------- *)
\* B = PyBind, E = Expected, good / bad = all / some values bound to annotated parameters satisfy /
\* violate them, fb = the first parameter with a bad value
Passthrough(v) == IF v.body = "raise" THEN "exc" ELSE IF v.ret = "bad" THEN "ReturnViolation" ELSE "ok"
AllGood(c, B, E) == ~B.err /\ BadPairs(c, E) = {}
SomeBad(c, B, E) == ~B.err /\ BadPairs(c, E) # {}

\* every checked pair is a (parameter, value) pair that Python binds: no value is checked against
\* a parameter it does not belong to, no default is checked
HCheckedSound(B, E, w)   == ~B.err => Range(w.checked) \subseteq E
\* if nothing is wrong, every passed value of an annotated parameter was checked
HCheckedAll(good, E, w)  == good => Range(w.checked) = E
HDefaultsUnchecked(w)    == \A e \in Range(w.checked) : e[2] # "D"
\* a failing parameter check: the original never runs, a parameter violation names the first bad one
HBadBlocks(bad, fb, w)   == bad => w.ran = 0 /\ w.out = "ParamViolation" /\ w.blame = fb
\* all checks pass: the original runs exactly once with exactly what CPython binds; outcome unchanged
HTransparent(good, B, v, w) == good => w.ran = 1 /\ w.recv = B /\ w.out = Passthrough(v)
\* a call that cannot bind: TypeError or a parameter violation, the original does not run
HUnbindable(B, w)        == B.err => w.ran = 0 /\ w.out \in {"TypeError", "ParamViolation"}
\* grouped for the case table: clauses about the argument phase / about the outcome
HArgPhase(B, E, good, w) == HCheckedSound(B, E, w) /\ HCheckedAll(good, E, w) /\ HDefaultsUnchecked(w)
HOutcome(B, good, bad, fb, v, w) == HBadBlocks(bad, fb, w) /\ HTransparent(good, B, v, w) /\ HUnbindable(B, w)

(* ---- state machine ------------------------------------------------------------------ *)
VARIABLES sig,    \* the decorated callable's parameters
          code,   \* the wrapper generated for it (decoration time)
          call,   \* the call in progress
          var,    \* body behaviour and return annotation of the original (read from the call-through on)
          w       \* wrapper frame
vars == <<sig, code, call, var, w>>
NoCall == [pos |-> <<>>, kw |-> EmptyFn]
X == Ctx(sig, call, code)
PB == PyBind(sig, call)
PE == Expected(sig, PB)
PGood == AllGood(call, PB, PE)
PBad  == SomeBad(call, PB, PE)

Init == sig = <<>> /\ code = GenCode(<<>>) /\ call = NoCall /\ var = VariantSeq[1] /\ w = Idle

\* build phase = decoration: any legal parameter list; every reachable sig is a legal signature
AddParam(kind, ann, dflt) ==
  /\ w.pc = "idle" /\ CanAdd(sig, kind, dflt)
  /\ sig' = Append(sig, [kind |-> kind, name |-> NewName(sig, kind), ann |-> ann, dflt |-> dflt])
  /\ code' = GenCode(sig')
  /\ UNCHANGED <<call, var, w>>
\* (the shape is not kept in the state: with the intended design every shape gives the same frame)
Invoke(c, sh) ==
  /\ call' = c
  /\ w' = IF WrapperKind(sh) = sh.dec THEN Enter(Ctx(sig, c, code))
          ELSE [Idle EXCEPT !.pc = "done", !.out = "kind-mismatch"]
  /\ UNCHANGED <<sig, code, var>>
InitArgsLen  == w.pc = "argslen" /\ w' = StepArgsLen(X, w) /\ UNCHANGED <<sig, code, call, var>>
CheckPosOnly == CurKind(code.G, w) = "posonly" /\ w' = StepPosOnly(X, w) /\ UNCHANGED <<sig, code, call, var>>
CheckFlex    == CurKind(code.G, w) = "flex"    /\ w' = StepFlex(X, w)    /\ UNCHANGED <<sig, code, call, var>>
CheckVarPos  == CurKind(code.G, w) = "varpos"  /\ w' = StepVarPos(X, w)  /\ UNCHANGED <<sig, code, call, var>>
CheckKwOnly  == CurKind(code.G, w) = "kwonly"  /\ w' = StepKwOnly(X, w)  /\ UNCHANGED <<sig, code, call, var>>
CheckVarKw   == CurKind(code.G, w) = "varkw"   /\ w' = StepVarKw(X, w)   /\ UNCHANGED <<sig, code, call, var>>
Raise        == w.pc = "raise" /\ w' = StepRaise(X, w) /\ UNCHANGED <<sig, code, call, var>>
CallOriginal(v) == w.pc = "call" /\ var' = v /\ w' = StepCall(X, v, w) /\ UNCHANGED <<sig, code, call>>
CheckReturn  == w.pc = "ret" /\ w' = StepRet(X, var, w) /\ UNCHANGED <<sig, code, call, var>>

Next == \/ \E k \in {"posonly", "flex", "varpos", "kwonly", "varkw"}, a \in BOOLEAN, d \in BOOLEAN : AddParam(k, a, d)
        \/ \E c \in (IF Mode = "check" /\ w.pc = "idle" THEN Calls(sig) ELSE {}) :
              \E j \in DOMAIN ShapeSeq : Invoke(c, ShapeSeq[j])
        \/ InitArgsLen \/ CheckPosOnly \/ CheckFlex \/ CheckVarPos \/ CheckKwOnly \/ CheckVarKw
        \/ Raise \/ (\E v \in Variants : CallOriginal(v)) \/ CheckReturn
Spec == Init /\ [][Next]_vars

(* ---- properties (check mode): one invariant per clause ------------------------------ *)
Done == w.pc = "done"
CheckedSound     == Done => HCheckedSound(PB, PE, w)
CheckedAll       == Done => HCheckedAll(PGood, PE, w)
DefaultsUnchecked == HDefaultsUnchecked(w)
BadBlocks        == Done => HBadBlocks(PBad, IF PBad THEN FirstBad(sig, call, PB) ELSE "", w)
Transparent      == Done => HTransparent(PGood, PB, var, w)
Unbindable       == Done => HUnbindable(PB, w)
\* the original never runs before all parameter checks are through, and at most once
RanLate          == w.ran <= 1 /\ (w.ran = 1 => w.pc \in {"ret", "done"})
\* the wrapper is of the kind of the callable it wraps, whatever that callable itself wraps
KindFollows      == w.out # "kind-mismatch"
\* the action-by-action run and the iterated step function agree
AgreesWithRun    == Done => w = Run(X, var)

(* ---- case table (emit mode): one row per signature ---------------------------------- *)
OutCode(o) == CASE o = "TypeError" -> 0 [] o = "ParamViolation" -> 1 [] o = "ok" -> 2 [] o = "exc" -> 3
                [] o = "ReturnViolation" -> 4
CallRow(s, cd, c) ==
  LET x    == Ctx(s, c, cd)
      B    == PyBindF(cd.func, c)
      E    == ExpectedF(cd.func, B)
      good == AllGood(c, B, E)
      bad  == SomeBad(c, B, E)
      fb   == IF bad THEN FirstBadF(cd.func, c, E) ELSE ""
      pre  == RunPre(x, Enter(x))
      fin  == [k \in DOMAIN VariantSeq |-> RunFrom(x, VariantSeq[k], pre)]
  IN [p   |-> c.pos, k |-> c.kw,
      e   |-> IF B.err THEN 1 ELSE 0, one |-> B.one, star |-> B.star, kw |-> B.kw,
      o   |-> [j \in DOMAIN fin |-> OutCode(fin[j].out)],
      r   |-> fin[1].ran,                       \* the same for every variant
      bl  |-> pre.blame,
      ch  |-> pre.checked,                      \* <<parameter, value>> pairs in the order checked
      ex  |-> IF bad THEN E ELSE {},            \* Expected, where it is not simply the set of ch
      h   |-> /\ HArgPhase(B, E, good, pre)
              /\ \A j \in DOMAIN fin : /\ HOutcome(B, good, bad, fb, VariantSeq[j], fin[j])
                                       /\ fin[j].ran = fin[1].ran /\ fin[j].checked = pre.checked]
RECURSIVE SigCode(_)
SigCode(s) == IF s = <<>> THEN 0
              ELSE LET q == s[Len(s)] IN
                   2 * SigCode(SubSeq(s, 1, Len(s) - 1)) + (IF q.ann THEN 1 ELSE 0) + (IF q.dflt THEN 3 ELSE 0) + Rank(q.kind)
InShard(s) == /\ (ShardPos = 99 \/ ShardPos = NPos(s)) /\ (ShardKw = 99 \/ ShardKw = Count(s, "kwonly"))
              /\ SigCode(s) % ShardMod = ShardRem
ShapeRows == [j \in DOMAIN ShapeSeq |-> [dec |-> ShapeSeq[j].dec, inner |-> ShapeSeq[j].inner,
                                        wrapper |-> WrapperKind(ShapeSeq[j])]]
Row(s, cd) == [sig |-> s, gen |-> [j \in DOMAIN cd.G |-> <<cd.G[j].kind, cd.G[j].name, cd.G[j].idx>>],
               needlen |-> cd.needlen, kwable |-> cd.kwable, haskw |-> Has(s, "varkw"),
               variants |-> VariantSeq, shapes |-> ShapeRows, calls |-> { CallRow(s, cd, c) : c \in Calls(s) }]
Printable(row) == [row EXCEPT !.calls = { [f \in DOMAIN r \ {"h"} |-> r[f]] : r \in row.calls }]
Emit == (Mode = "emit" /\ InShard(sig)) =>
          LET row == Row(sig, code) IN PrintT(ToJson(Printable(row))) /\ KindsOK /\ \A r \in row.calls : r.h
=============================================================================
