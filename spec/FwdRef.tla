------------------------------- MODULE FwdRef -------------------------------
(***************************************************************************)
(* C07 -- string and postponed annotations are checked exactly like        *)
(* evaluated ones.                                                         *)
(*                                                                         *)
(* Code modelled (beartype 0.23.0):                                        *)
(*   _check/forward/fwdresolve.py   resolve_hint_pep484_ref_str_decor_curr *)
(*   _check/forward/scope/fwdscopemake.py  make_scope_forward_decor_curr   *)
(*   _check/forward/scope/fwdscopecls.py   BeartypeForwardScope.__missing__*)
(*   _check/forward/reference/_cls/fwdrefmeta.py                           *)
(*        __resolved_hint_beartype__ , _resolve_hint_pep484_ref_str        *)
(*   _check/forward/reference/_cls/fwdreffake.py  (name-matching proxy)    *)
(*                                                                         *)
(* One behaviour of this specification is one Python PROGRAM executed      *)
(* statement by statement: class statements (Define / Redefine), the       *)
(* decorated definition (Decorate), entering and leaving class bodies and  *)
(* activations of the enclosing function (EnterC .. LeaveF, EnterF2 = the  *)
(* enclosing function is called a second time and runs the same body),     *)
(* and calls of the decorated callable (Call).  The state is the run-time  *)
(* state of that program: a scope tree with  bind : Scope -> Name ->       *)
(* ClassId (0 = unbound; a NEW identity for every executed class           *)
(* statement) and, per decorated callable and per form of the annotation   *)
(* (one string 'list[N]', postponed by the __future__ import, a string     *)
(* nested in the hint list['N']; the evaluated form is Python's own        *)
(* capture, field evcap), what the decorator stored for each name:         *)
(*     cap    the class found by eval() in the forward scope at decoration *)
(*     proxy  an unresolved forward-reference proxy  (loc: it carries the  *)
(*            code object of the parent scope)                             *)
(*     pin    a proxy whose referent has been resolved and cached          *)
(*     fake   a proxy resolved to the name-matching fake class and cached  *)
(*     failed a cached failure            (only under the CacheFailure     *)
(*            mutant)                                                      *)
(*                                                                         *)
(* Call resolves the names as the code does: cached referent; attribute of *)
(* the module; no parent code object -> forward-reference exception;       *)
(* parent frame on the stack -> its locals; otherwise the fallback.        *)
(* The five BOOLEAN constants switch on what 0.23.0 does where it departs  *)
(* from lexical scoping (GlobalFirst, FakeFallback, FrameByCode,           *)
(* SharedProxy: all four TRUE reproduced 100% of 4*10^5 recorded outcomes  *)
(* of the real code) or a plausible wrong design (CacheFailure); all FALSE *)
(* is the intended design (must satisfy every invariant), each one TRUE    *)
(* alone is a spec mutant TLC must reject:                                 *)
(*   GlobalFirst   module attribute wins over a binding of the enclosing   *)
(*                 function / class body (at decoration: an enclosing-     *)
(*                 function local that is still unbound is taken from the  *)
(*                 module)                                                 *)
(*   FakeFallback  once the parent frame is gone the proxy resolves to a   *)
(*                 class that accepts every instance whose class (or a     *)
(*                 base) has the same __name__            (finding F9)     *)
(*   FrameByCode   the parent frame is searched by code object: another    *)
(*                 activation of the enclosing function is taken for the   *)
(*                 decorating one                                          *)
(*   SharedProxy   hints are de-duplicated by repr(); a proxy inside a     *)
(*                 hint prints as module.name only: the container          *)
(*                 hint of the closure made by a second activation is      *)
(*                 replaced by the first activation's hint object, proxies *)
(*                 and their cached referents included                     *)
(*   CacheFailure  a failed resolution is remembered by the proxy          *)
(*   MembershipOnly  a resolved proxy is checked with isinstance() alone:  *)
(*                 the pseudo-superclass of a user generic, class          *)
(*                 N(list[int]), is not checked (BeartypeForwardRefMeta.   *)
(*                 __instancecheck__ taking its fast path for unsubscripted*)
(*                 generics)                                               *)
(*                                                                         *)
(* Classes are of two kinds (variable gk, per program, for the name N):    *)
(* "plain"  class N: pass,  and "gen"  class N(list[int]): pass -- a user  *)
(* generic whose instances carry contents that conform (N([1]), q = "ok")  *)
(* or not (N(['a']), q = "bad").  The evaluated annotation N rejects the   *)
(* latter; so does Want.                                                   *)
(*                                                                         *)
(* Declarative side: Want(f, obj) -- the outcomes C07 allows: the verdict  *)
(* of the hint with each name replaced by the class the EVALUATED variant  *)
(* of the same definition captures (Python's own lexical lookup when the   *)
(* def statement runs); for a name the evaluated variant cannot express    *)
(* (bound later) the class lexically bound when a check first needs it;    *)
(* a beartype forward-reference exception iff a needed name is unbound.    *)
(* It uses only bind, the ghost fields evcap / pin and Python's scoping    *)
(* rule (Lex): no proxies, caches, frames.                                 *)
(***************************************************************************)
EXTENDS Naturals, Sequences, FiniteSets, TLC

CONSTANTS Placements,    \* subset of AllPlacements
          Hints,         \* subset of AllHints
          MaxSteps,      \* statements per program
          MaxDefs,       \* executed class statements for the names N / K
          MaxCalls,      \* calls per program
          Kinds,         \* subset of {"plain", "gen"}: what the class statements of the name N define
          GlobalFirst, FakeFallback, FrameByCode, SharedProxy, CacheFailure, MembershipOnly

AllPlacements == {"modfunc",      \* def f at module level
                  "method",       \* class C: @beartype def m
                  "nmethod",      \* class C: class D: @beartype def m
                  "closure",      \* def outer(): @beartype def g
                  "cmethod",      \* class C: def meth(self): @beartype def g
                  "method_cd",    \* @beartype class C: def m
                  "nmethod_cd"}   \* @beartype class C: class D: def m
AllHints == {"N", "list", "opt", "dict", "tuple", "Self"}
   \*         N    list[N]  N|None  dict[str,N]  tuple[N,K]   the enclosing class by name

ScopeIds == {"M", "C", "D", "F1", "F2"}
AllNames == {"N", "K", "C", "D"}
StrForms == {"str", "post", "inner"}   \* 'list[N]',  from __future__ import annotations,  list['N']

VARIABLES p,        \* placement of this program
          h,        \* hint shape of the decorated parameter
          gk,       \* kind of the classes named N in this program: "plain" or "gen"
          lnames,   \* names that are local variables of the enclosing function (closure placements):
                    \* Python decides this when it compiles the function, not when it runs
          pc,       \* where the program is: M M0 M1 M2 (module level)  C C0 C1  D  F1 F2
          bind,     \* [ScopeIds -> [AllNames -> Nat]]
          cls,      \* sequence of [name, scope]: ClassId -> where that class statement ran
          fn,       \* [1..2 -> callable record]   (2: the closure made by the second activation)
          body,     \* statements executed by the first activation (replayed by the second)
          last,     \* the last statement and, for Call, what happened and what C07 allows
          steps, ncalls
vars == <<p, h, gk, lnames, pc, bind, cls, fn, body, last, steps, ncalls>>

IsCD  == p \in {"method_cd", "nmethod_cd"}
IsFun == p \in {"closure", "cmethod"}
SelfName(pp) == IF pp = "nmethod" THEN "D" ELSE "C"
HintNames(hh, pp) == CASE hh = "tuple" -> {"N", "K"} [] hh = "Self" -> {SelfName(pp)} [] OTHER -> {"N"}
HN == HintNames(h, p)
N1 == IF h = "Self" THEN SelfName(p) ELSE "N"          \* the (first) name of the hint
Definable == HN \ {"C", "D"}
KindOf(n) == IF n = "N" THEN gk ELSE "plain"

Home(act) == CASE p = "modfunc" -> "M"
               [] p \in {"method", "method_cd"} -> "C"
               [] p \in {"nmethod", "nmethod_cd"} -> "D"
               [] OTHER -> IF act = 1 THEN "F1" ELSE "F2"

CurScope == CASE pc \in {"M", "M0", "M1", "M2"} -> "M"
              [] pc \in {"C", "C0", "C1"} -> "C"
              [] OTHER -> pc
\* the frame that executes the body of scope s is on the call stack
Live(s) == CASE s = "M" -> TRUE
             [] s = "C" -> pc \in {"C", "C0", "D", "C1"}
             [] OTHER -> pc = s

(* ---- Python's lexical scoping ---------------------------------------------------- *)
\* a name of the enclosing function is local iff the function assigns it anywhere (compile
\* time); a class body looks at its own namespace first, dynamically; enclosing class bodies
\* are never visible
LocalName(home, n, b) == \/ home \in {"F1", "F2"} /\ n \in lnames
                         \/ home \in {"C", "D"} /\ b[home][n] # 0
Lex(home, n, b) == IF LocalName(home, n, b) THEN b[home][n] ELSE b["M"][n]

(* ---- values ---------------------------------------------------------------------- *)
Rec(k, c, loc, o, w) == [k |-> k, c |-> c, loc |-> loc, o |-> o, w |-> w]
   \* o, w (attribution only): the route that produced the referent, the callable whose check did
NoRec == Rec("none", 0, FALSE, "", 0)
Atom(t, c, q) == [t |-> t, c |-> c, q |-> q]      \* q: contents of an instance of a generic: "ok" / "bad"
NoneAtom == Atom("none", 0, "")
Unrel == Atom("unrel", 0, "")                  \* instance of an unrelated, differently named class
Obj(shape, a, b) == [shape |-> shape, a |-> a, b |-> b]
NoObj == Obj("atom", NoneAtom, NoneAtom)
NoGot == [str |-> "na", post |-> "na", inner |-> "na", ev |-> "na"]
NoVia == [a |-> "", b |-> ""]
Stmt(act, s, n) == [act |-> act, s |-> s, n |-> n, f |-> 0, obj |-> NoObj, got |-> NoGot,
                    want |-> {}, via |-> NoVia, evok |-> FALSE, shared |-> FALSE,
                    blame |-> [fm \in StrForms |-> NoVia]]

NoFn == [dec |-> FALSE, ready |-> FALSE, home |-> "M", alias |-> FALSE,
         res |-> [fm \in StrForms |-> [n \in HN |-> NoRec]],
         evcap |-> [n \in HN |-> 0],        \* ghost: Python's lookup when the def statement ran
         pin |-> [n \in HN |-> 0],          \* ghost: class lexically bound at the first definite need
         maybe |-> [n \in HN |-> FALSE]]    \* ghost: a check may or may not have needed the name

(* ---- decoration: resolve_hint_pep484_ref_str_decor_curr --------------------------- *)
\* eval(hint, forward scope): forward scope = builtins, then module globals, then the locals
\* of the parent frame (class namespace / enclosing function's f_locals); a missing name
\* becomes a proxy (BeartypeForwardScope.__missing__) carrying the parent's code object.
\* "hint in func_basenames_scoped": a bare name of an enclosing class of a directly decorated
\* method is proxied against the module without looking it up.
DecoStr(home, n, b) ==
  LET special == h = "Self" /\ ~IsCD
      found == IF GlobalFirst THEN (IF b[home][n] # 0 THEN b[home][n] ELSE b["M"][n])
                              ELSE Lex(home, n, b)
  IN IF special THEN Rec("proxy", 0, FALSE, "", 0)
     ELSE IF found # 0 THEN Rec("cap", found, FALSE, IF found = Lex(home, n, b) THEN "cap" ELSE "capglobal", 0)
     ELSE Rec("proxy", 0, home # "M" /\ ~IsCD, "", 0)

NewFn(home, b, ready) ==
  [dec |-> TRUE, ready |-> ready, home |-> home, alias |-> FALSE,
   res |-> [fm \in StrForms |-> [n \in HN |-> IF ready THEN DecoStr(home, n, b) ELSE NoRec]],
   evcap |-> [n \in HN |-> Lex(home, n, b)],
   pin |-> [n \in HN |-> 0], maybe |-> [n \in HN |-> FALSE]]

(* ---- call time: BeartypeForwardRefMeta.__resolved_hint_beartype__ ------------------ *)
OtherAct(hm) == IF hm = "F1" THEN "F2" ELSE IF hm = "F2" THEN "F1" ELSE hm
Resolve(r, hm, n, b, f) ==
  IF r.k \in {"cap", "pin", "fake"} THEN [res |-> r, ok |-> TRUE, via |-> r.o]       \* captured / cached
  ELSE IF r.k = "failed" THEN [res |-> r, ok |-> FALSE, via |-> "cachedfailure"]
  ELSE
    LET g == b["M"][n]
        fail == [res |-> IF CacheFailure THEN Rec("failed", 0, r.loc, "", f) ELSE r, ok |-> FALSE, via |-> "unresolved"]
        Pin(c, v) == [res |-> Rec("pin", c, r.loc, v, f), ok |-> TRUE, via |-> v]
    IN \* phase "global": import_module_attr_or_sentinel(name, module)
       IF (GlobalFirst \/ ~LocalName(hm, n, b)) /\ g # 0 THEN Pin(g, "global")
       \* no parent code object: decorated at module level (or through its class)
       ELSE IF ~r.loc THEN fail
       \* phase "local": find_frame_codeobject_or_none(parent code object)
       ELSE IF Live(hm) THEN (IF b[hm][n] # 0 THEN Pin(b[hm][n], "frame") ELSE fail)
       ELSE IF FrameByCode /\ hm \in {"F1", "F2"} /\ Live(OtherAct(hm))
            THEN (IF b[OtherAct(hm)][n] # 0 THEN Pin(b[OtherAct(hm)][n], "otherframe") ELSE fail)
       \* phase "fake" (0.23.0)  /  the bindings of the decorating activation (intended)
       ELSE IF FakeFallback THEN [res |-> Rec("fake", 0, r.loc, "fake", f), ok |-> TRUE, via |-> "fake"]
       ELSE IF b[hm][n] # 0 THEN Pin(b[hm][n], "cell") ELSE fail

\* isinstance(atom, referent)
\* a captured class is an ordinary hint: a user generic is checked with its pseudo-superclass
\* (contents); a resolved proxy goes through BeartypeForwardRefMeta.__instancecheck__
Conforms(c, a) == cls[c].kind = "gen" => a.q = "ok"
Match(r, n, a) == IF r.k = "fake" THEN a.t = "inst" /\ cls[a.c].name = n
                  ELSE /\ a.t = "inst" /\ a.c = r.c
                       /\ (MembershipOnly /\ r.k = "pin") \/ Conforms(r.c, a)

Shape == CASE h = "list" -> "list" [] h = "dict" -> "dict" [] h = "tuple" -> "tuple" [] OTHER -> "atom"
\* the isinstance() tests the generated wrapper performs, in its order, short-circuiting
Leaves(obj) ==
  IF obj.shape # Shape THEN <<>>
  ELSE IF h = "tuple" THEN << <<"N", obj.a>>, <<"K", obj.b>> >>
  ELSE << <<N1, obj.a>> >>
\* decided before any name is looked at
Early(obj) == IF obj.shape # Shape THEN "violation"
              ELSE IF h = "opt" /\ obj.a.t = "none" THEN "accept"
              ELSE "go"

RECURSIVE CheckSeq(_, _, _, _, _, _)
CheckSeq(lv, rm, hm, b, vias, f) ==
  IF lv = <<>> THEN [out |-> "accept", res |-> rm, vias |-> vias]
  ELSE LET n == lv[1][1]
           a == lv[1][2]
           r == Resolve(rm[n], hm, n, b, f)
           rm2 == [rm EXCEPT ![n] = r.res]
           v2 == Append(vias, r.via)
       IN IF ~r.ok THEN [out |-> "fwdref", res |-> rm2, vias |-> v2]
          ELSE IF ~Match(r.res, n, a) THEN [out |-> "violation", res |-> rm2, vias |-> v2]
          ELSE CheckSeq(Tail(lv), rm2, hm, b, v2, f)

\* where the proxies of callable f live (SharedProxy: in the first activation's hint object)
\* (observed: only when the whole annotation is one string, not for list['N'])
Store(f, fm) == IF fn[f].alias /\ fm # "inner" THEN 1 ELSE f
Check(f, fm, obj) ==
  IF Early(obj) # "go" THEN [out |-> Early(obj), res |-> fn[Store(f, fm)].res[fm], vias |-> <<>>]
  ELSE CheckSeq(Leaves(obj), fn[Store(f, fm)].res[fm], fn[f].home, bind, <<>>, f)

\* the evaluated variant: Python captured the classes when the def statement ran
EvOk(f) == \A n \in HN : fn[f].evcap[n] # 0
\* the evaluated variant of the program exists: no def statement raises NameError
EvAll == \A f \in 1..2 : fn[f].dec => EvOk(f)
EvOut(f, obj) ==
  IF ~EvAll THEN "na"
  ELSE IF Early(obj) # "go" THEN Early(obj)
  ELSE IF \A i \in 1..Len(Leaves(obj)) :
            LET n == Leaves(obj)[i][1] a == Leaves(obj)[i][2]
            IN a.t = "inst" /\ a.c = fn[f].evcap[n] /\ Conforms(a.c, a)
       THEN "accept" ELSE "violation"

(* ---- declarative: what C07 allows ------------------------------------------------- *)
Env(f, n) == IF fn[f].evcap[n] # 0 THEN fn[f].evcap[n]
             ELSE IF fn[f].pin[n] # 0 THEN fn[f].pin[n]
             ELSE Lex(fn[f].home, n, bind)
\* three-valued: "U" = depends on a name that is not bound
LeafK(e, a) == IF e = 0 THEN "U" ELSE IF a.t = "inst" /\ a.c = e /\ Conforms(e, a) THEN "T" ELSE "F"
KAnd(x, y) == IF x = "F" \/ y = "F" THEN "F" ELSE IF x = "U" \/ y = "U" THEN "U" ELSE "T"
\* verdict under the environment e : HN -> ClassId
K3(obj, e) ==
  IF obj.shape # Shape THEN "F"
  ELSE IF h = "opt" /\ obj.a.t = "none" THEN "T"
  ELSE IF h = "tuple" THEN KAnd(LeafK(e["N"], obj.a), LeafK(e["K"], obj.b))
  ELSE LeafK(e[N1], obj.a)
\* names whose referent a checker may look at for this object
Appears(obj) == IF obj.shape # Shape THEN {} ELSE HN
EnvOf(f) == [n \in HN |-> Env(f, n)]
Want(f, obj) ==
  LET e == EnvOf(f)
      k == K3(obj, e)
  IN IF k = "U" THEN {"fwdref"}
     ELSE {IF k = "T" THEN "accept" ELSE "violation"} \cup
          (IF \E n \in Appears(obj) : e[n] = 0 THEN {"fwdref"} ELSE {})
\* the verdict cannot be known without n, and nothing else forces an exception
Definite(f, obj, n) ==
  /\ n \in Appears(obj)
  /\ K3(obj, [EnvOf(f) EXCEPT ![n] = 0]) = "U"
  /\ \A m \in Appears(obj) \ {n} : Env(f, m) # 0
GhostAfter(f, obj) ==
  LET c == fn[f]
      open(n) == c.evcap[n] = 0 /\ c.pin[n] = 0 /\ Lex(c.home, n, bind) # 0 /\ n \in Appears(obj)
  IN [c EXCEPT !.pin = [n \in HN |-> IF open(n) /\ Definite(f, obj, n) THEN Lex(c.home, n, bind) ELSE c.pin[n]],
               !.maybe = [n \in HN |-> IF open(n) THEN ~Definite(f, obj, n) ELSE c.maybe[n]]]

(* ---- objects ---------------------------------------------------------------------- *)
\* instances of every class statement executed so far for a name of the hint (the right one,
\* other definitions, other activations, same name in another scope), an unrelated instance, None
AtomsFor(n) == {Atom("inst", i, IF cls[i].kind = "gen" THEN "ok" ELSE "") : i \in {j \in 1..Len(cls) : cls[j].name = n}}
               \cup {Atom("inst", i, "bad") : i \in {j \in 1..Len(cls) : cls[j].name = n /\ cls[j].kind = "gen"}}
               \cup {Unrel, NoneAtom}
Objs ==
  IF h = "tuple" THEN {Obj("tuple", a, b) : a \in AtomsFor("N"), b \in AtomsFor("K")} \cup {Obj("atom", Unrel, NoneAtom)}
  ELSE {Obj(Shape, a, NoneAtom) : a \in AtomsFor(N1)} \cup
       (IF Shape # "atom" THEN {Obj("atom", Unrel, NoneAtom)} ELSE {})

(* ---- the program ------------------------------------------------------------------ *)
EmptyBind == [s \in ScopeIds |-> [n \in AllNames |-> 0]]
NDefs == Cardinality({i \in 1..Len(cls) : cls[i].name \in {"N", "K"}})
Tick == steps < MaxSteps /\ steps' = steps + 1

Init ==
  /\ p \in Placements /\ h \in Hints /\ gk \in Kinds
  /\ h = "Self" => gk = "plain"
  /\ h = "Self" => p \in {"method", "method_cd", "nmethod"}
  /\ lnames \in (IF p \in {"closure", "cmethod"} THEN SUBSET HintNames(h, p) ELSE {{}})
  /\ pc = IF p = "modfunc" THEN "M" ELSE "M0"
  \* closure in a method: the class of that method may itself define N (never visible to the closure)
  /\ \E cdef \in (IF p = "cmethod" /\ h # "Self" THEN BOOLEAN ELSE {FALSE}) :
        /\ bind = IF cdef THEN [EmptyBind EXCEPT !["C"]["N"] = 1] ELSE EmptyBind
        /\ cls = IF cdef THEN <<[name |-> "N", scope |-> "C", kind |-> gk]>> ELSE <<>>
  /\ body = <<>>
  /\ fn = [i \in 1..2 |-> NoFn]
  /\ last = Stmt("Init", "M", "") /\ steps = 0 /\ ncalls = 0

\* class n: pass     -- a new identity, bound in the current scope
DefineOK(n) ==
  /\ n \in Definable /\ NDefs < MaxDefs
  /\ CASE CurScope = "M" -> TRUE
       [] CurScope = "C" -> pc \in {"C", "C0"} /\ p # "cmethod"
       [] CurScope = "D" -> TRUE
       [] CurScope = "F1" -> n \in lnames
       [] OTHER -> FALSE
  \* keep the program unambiguous: no re-binding while some check may or may not have pinned n
  /\ \A f \in 1..2 : ~fn[f].maybe[n]
  \* decoration through the class happens when the class statement completes, the evaluated
  \* variant captures when the def statement runs: no re-binding of a captured name in between
  /\ IsCD /\ fn[1].dec /\ ~fn[1].ready /\ CurScope = fn[1].home => fn[1].evcap[n] = 0
DoDefine(n, act) ==
  /\ Tick /\ DefineOK(n)
  /\ cls' = Append(cls, [name |-> n, scope |-> CurScope, kind |-> KindOf(n)])
  /\ bind' = [bind EXCEPT ![CurScope][n] = Len(cls) + 1]
  /\ body' = IF pc = "F1" THEN Append(body, [k |-> "def", n |-> n]) ELSE body
  /\ last' = Stmt(act, CurScope, n)
  /\ UNCHANGED <<p, h, gk, lnames, pc, fn, ncalls>>
Define(n)   == bind[CurScope][n] = 0 /\ DoDefine(n, "Define")
Redefine(n) == bind[CurScope][n] # 0 /\ DoDefine(n, "Redefine")

\* the def statement of the decorated callable (directly decorated, or a method of a class
\* that is decorated as a whole: then the decorator runs when the class statement completes)
Decorate ==
  /\ Tick /\ ~fn[1].dec /\ CurScope = Home(1) /\ pc \in {"M", "C", "D", "F1"}
  /\ fn' = [fn EXCEPT ![1] = NewFn(Home(1), bind, ~IsCD)]
  /\ body' = IF pc = "F1" THEN Append(body, [k |-> "dec", n |-> ""]) ELSE body
  /\ last' = Stmt("Decorate", CurScope, "")
  /\ UNCHANGED <<p, h, gk, lnames, pc, bind, cls, ncalls>>

EnterC == /\ Tick /\ pc = "M0" /\ p \in {"method", "method_cd", "nmethod", "nmethod_cd"}
          /\ pc' = IF p \in {"method", "method_cd"} THEN "C" ELSE "C0"
          /\ last' = Stmt("EnterC", "C", "")
          /\ UNCHANGED <<p, h, gk, lnames, bind, cls, fn, body, ncalls>>
EnterD == /\ Tick /\ pc = "C0"
          /\ pc' = "D" /\ last' = Stmt("EnterD", "D", "")
          /\ UNCHANGED <<p, h, gk, lnames, bind, cls, fn, body, ncalls>>
\* the class statement of D completes: D is bound in the namespace of C
LeaveD == /\ Tick /\ pc = "D" /\ fn[1].dec
          /\ cls' = Append(cls, [name |-> "D", scope |-> "C", kind |-> "plain"])
          /\ bind' = [bind EXCEPT !["C"]["D"] = Len(cls) + 1]
          /\ pc' = "C1" /\ last' = Stmt("LeaveD", "D", "")
          /\ UNCHANGED <<p, h, gk, lnames, fn, body, ncalls>>
\* the class statement of C completes: C is bound in the module; @beartype on the class runs
LeaveC == /\ Tick /\ pc \in {"C", "C1"} /\ fn[1].dec
          /\ cls' = Append(cls, [name |-> "C", scope |-> "M", kind |-> "plain"])
          /\ bind' = [bind EXCEPT !["M"]["C"] = Len(cls) + 1]
          /\ fn' = IF IsCD THEN [fn EXCEPT ![1] = [NewFn(Home(1), bind', TRUE) EXCEPT !.evcap = fn[1].evcap]]
                           ELSE fn
          /\ pc' = "M1" /\ last' = Stmt("LeaveC", "C", "")
          /\ UNCHANGED <<p, h, gk, lnames, body, ncalls>>

\* outer() is called / C().meth() is called: first activation
EnterF == /\ Tick /\ pc = "M0" /\ IsFun
          /\ pc' = "F1" /\ last' = Stmt("EnterF", "F1", "")
          /\ UNCHANGED <<p, h, gk, lnames, bind, cls, fn, body, ncalls>>
LeaveF == /\ Tick /\ pc \in {"F1", "F2"} /\ fn[1].dec
          /\ pc' = IF pc = "F1" THEN "M1" ELSE "M2"
          /\ last' = Stmt("LeaveF", pc, "")
          /\ UNCHANGED <<p, h, gk, lnames, bind, cls, fn, body, ncalls>>
\* second activation: the same statements run again with new identities and a new closure
RECURSIVE Replay(_, _, _, _)
Replay(i, b, cl, f2) ==
  IF i > Len(body) THEN [b |-> b, cl |-> cl, f2 |-> f2]
  ELSE IF body[i].k = "def"
       THEN Replay(i + 1, [b EXCEPT !["F2"][body[i].n] = Len(cl) + 1],
                   Append(cl, [name |-> body[i].n, scope |-> "F2", kind |-> KindOf(body[i].n)]), f2)
       ELSE Replay(i + 1, b, cl,
                   [NewFn("F2", b, TRUE) EXCEPT !.alias =
                      /\ SharedProxy /\ h \notin {"N", "Self"}
                      \* equal repr: every name is a proxy in both hints, or the very same class in both
                      /\ \A n \in HN : LET d2 == DecoStr("F2", n, b)
                                           r1 == fn[1].res["str"][n]
                                       IN \/ d2.k = "proxy" /\ r1.k # "cap"
                                          \/ d2.k = "cap" /\ r1.k = "cap" /\ d2.c = r1.c])
BodyDefs == Cardinality({i \in 1..Len(body) : body[i].k = "def"})
EnterF2 == /\ Tick /\ pc = "M1" /\ IsFun /\ NDefs + BodyDefs <= MaxDefs
           /\ \A f \in 1..2 : \A n \in HN : ~fn[f].maybe[n]
           /\ LET r == Replay(1, bind, cls, NoFn)
              IN bind' = r.b /\ cls' = r.cl /\ fn' = [fn EXCEPT ![2] = r.f2]
           /\ pc' = "F2" /\ last' = Stmt("EnterF2", "F2", "")
           /\ UNCHANGED <<p, h, gk, lnames, body, ncalls>>

\* the proxies of f are also those of the other activation's closure
SharedWith(f) == fn[f].alias \/ (f = 1 /\ fn[2].alias)
\* attribution (not part of any property): which route gave the i-th name looked at by this
\* call a referent other than the class C07 expects
Blame(f, fm, obj, r, i) ==
  IF Early(obj) # "go" \/ i > Len(r.vias) THEN ""
  ELSE LET n == Leaves(obj)[i][1]
           x == r.res[n]
           a == Leaves(obj)[i][2]
       IN IF x.k = "fake" THEN "fake"
          ELSE IF x.k = "pin" /\ x.c = Env(f, n) /\ a.t = "inst" /\ a.c = x.c /\ ~Conforms(x.c, a) /\ MembershipOnly
               THEN "membershiponly"
          ELSE IF x.k \in {"cap", "pin"} /\ x.c # Env(f, n)
               THEN (IF x.w \notin {0, f} THEN "sharedproxy" ELSE x.o)
          ELSE IF x.k \in {"proxy", "failed"} /\ Env(f, n) # 0 /\ i = Len(r.vias) /\ r.out = "fwdref"
               THEN (IF x.k = "failed" THEN "cachedfailure" ELSE "unresolved")
          ELSE ""

Call(f, obj) ==
  /\ Tick /\ ncalls < MaxCalls /\ ncalls' = ncalls + 1
  /\ fn[f].ready /\ obj \in Objs
  /\ LET rs == [fm \in StrForms |-> Check(f, fm, obj)]
         vs == rs["str"].vias
     IN /\ fn' = [fn EXCEPT ![f] = GhostAfter(f, obj),
                             ![Store(f, "str")].res["str"] = rs["str"].res,
                             ![Store(f, "post")].res["post"] = rs["post"].res,
                             ![Store(f, "inner")].res["inner"] = rs["inner"].res]
        /\ last' = [act |-> "Call", s |-> CurScope, n |-> "", f |-> f, obj |-> obj,
                    got |-> [str |-> rs["str"].out, post |-> rs["post"].out, inner |-> rs["inner"].out, ev |-> EvOut(f, obj)],
                    want |-> Want(f, obj),
                    via |-> [a |-> IF Len(vs) >= 1 THEN vs[1] ELSE "", b |-> IF Len(vs) >= 2 THEN vs[2] ELSE ""],
                    evok |-> EvAll, shared |-> SharedWith(f),
                    blame |-> [fm \in StrForms |-> [a |-> Blame(f, fm, obj, rs[fm], 1), b |-> Blame(f, fm, obj, rs[fm], 2)]]]
  /\ UNCHANGED <<p, h, gk, lnames, pc, bind, cls, body>>

CallAny == \E f \in 1..2 : \E obj \in Objs : Call(f, obj)
Next == \/ \E n \in {"N", "K"} : Define(n) \/ Redefine(n)
        \/ Decorate \/ EnterC \/ EnterD \/ LeaveD \/ LeaveC \/ EnterF \/ LeaveF \/ EnterF2
        \/ CallAny
Spec == Init /\ [][Next]_vars

(* ---- properties --------------------------------------------------------------------- *)
IsCall == last.act = "Call"
\* every name bound: the same wrapper is usable (a Define after a failed check suffices;
\* a failed resolution has not been cached)
UsableOnceDefined == IsCall /\ "fwdref" \notin last.want => \A fm \in StrForms : last.got[fm] # "fwdref"
\* every name bound: the verdict is the one of the hint with the evaluated classes
VerdictAsEvaluated == IsCall /\ "fwdref" \notin last.want => \A fm \in StrForms : last.got[fm] \in last.want
\* a needed name is unbound: a forward-reference exception, nothing else
UnresolvableRaises == IsCall /\ last.want = {"fwdref"} => \A fm \in StrForms : last.got[fm] = "fwdref"
\* a name is unbound but the object may decide the verdict without it: either is fine
UnneededEither == IsCall /\ "fwdref" \in last.want => \A fm \in StrForms : last.got[fm] \in last.want
\* the three forms of one definition agree
FormsAgree == IsCall => /\ last.got["str"] = last.got["post"] /\ last.got["str"] = last.got["inner"]
                        /\ last.got["ev"] # "na" => last.got["ev"] = last.got["str"]
\* the declarative side agrees with the evaluated variant wherever Python can express it
EvaluatedIsReference == IsCall /\ last.got["ev"] # "na" => last.want = {last.got["ev"]}
\* design sanity: a cached referent is a class that was lexically right when it was cached,
\* never a remembered failure
NoFailureCached == \A f \in 1..2 : \A fm \in StrForms : \A n \in HN : fn[f].res[fm][n].k # "failed"
=============================================================================
