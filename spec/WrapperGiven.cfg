\* WrapperGiven.tla: rows for the cases in the ndjson file named by the environment variable C04_CASES
\* (the Max* / Shard* constants of Wrapper.tla are not consulted here)
SPECIFICATION GSpec
CONSTANTS
  MaxPosOnly = 3
  MaxFlex = 3
  MaxKwOnly = 3
  MaxSurplus = 3
  MaxKw = 4
  MaxBad = 9
  Specials = {"n", "z", "o"}
  Extras = {"x1", "x2", "x3"}
  VarNames = TRUE
  Mode = "emit"
  ShardPos = 99
  ShardKw = 99
  ShardMod = 1
  ShardRem = 0
  Mutant = "none"
INVARIANT GEmit
CHECK_DEADLOCK FALSE
