------------------------------- MODULE Conf -------------------------------
(***************************************************************************)
(* BeartypeConf.__new__ (beartype/_conf/confmain.py, conftest.py,          *)
(* _confoverrides.py): memoised, validated configuration objects  (C17).   *)
(*                                                                         *)
(* One action  Make(kw)  per constructor call, decomposed the way the code *)
(* is:  BuildArgs ; Probe(raw key) ; Default ; Validate ; Sanify ;         *)
(*      Probe(canonical key) ; Store ; Alias(raw key).                     *)
(* The declarative side is  Ideal(kw):  what C17 demands of a call,        *)
(* independent of history.                                                 *)
(*                                                                         *)
(* Values are abstract records [ty, v]; Python's == / hash identify        *)
(* True == 1 == 1.0 and False == 0 == 0.0 -- which is what a dict probe    *)
(* sees.  KeyMode selects the keying discipline of the memo table:         *)
(*   "typed"   raw key = arguments paired with their types (the design     *)
(*             after the fix: commit), canonical key after sanification    *)
(*   "raw"     beartype 0.23.0: PyEq raw key probed before validation,     *)
(*             instance stored under the raw key only  (spec mutant; TLC   *)
(*             must report Uniform / RoundTrip / CanonIdentity on it)      *)
(***************************************************************************)
EXTENDS Naturals, Sequences, FiniteSets, TLC

CONSTANTS KeyMode,      \* "typed" | "raw"
          VaryOpts,     \* options that the model checker varies (others stay default)
          MaxCalls      \* history length bound for exhaustive exploration

V(ty, v) == [ty |-> ty, v |-> v]

\* ---- the 17 options of BeartypeConf.__new__, by kind -----------------------------
BoolOpts == {"claw_is_pep526", "is_debug", "is_pep484_tower", "is_pep557_fields", "is_random"}
EnumOpts == {"claw_decor_place_func", "claw_decor_place_type", "strategy", "violation_verbosity"}
ExcOpts  == {"violation_door_type", "violation_param_type", "violation_return_type"}
Opts == BoolOpts \cup EnumOpts \cup ExcOpts \cup
        {"violation_type", "is_color", "hint_overrides", "claw_skip_package_names",
         "warning_cls_on_decorator_exception"}

Default(o) ==
  CASE o \in {"claw_is_pep526", "is_random"} -> V("bool", 1)
    [] o \in BoolOpts                         -> V("bool", 0)
    [] o \in EnumOpts                         -> V("enum", 0)      \* member 0 = documented default
    [] o \in ExcOpts \cup {"violation_type"}  -> V("none", 0)
    [] o = "is_color"                         -> V("none", 0)      \* unpassed, no env var
    [] o = "hint_overrides"                   -> V("fd", 0)        \* FrozenDict()
    [] o = "claw_skip_package_names"          -> V("tuple", 0)     \* ()
    [] o = "warning_cls_on_decorator_exception" -> V("wcls", 0)    \* the private default class

\* value universe per option: valid values, invalid ones and look-alikes
BoolLike == {V("bool", 0), V("bool", 1), V("int", 0), V("int", 1), V("float", 0), V("float", 1),
             V("int", 2), V("str", 0), V("none", 0)}
Vals(o) ==
  CASE o \in BoolOpts -> BoolLike
    [] o \in EnumOpts -> {V("enum", 0), V("enum", 1), V("enum", 2), V("int", 2), V("str", 0)}
    [] o \in ExcOpts  -> {V("none", 0), V("exc", 1), V("exc", 2), V("warn", 1), V("dflt", 0),
                          V("cls", 9), V("inst", 1)}
         \* dflt = the documented default class of that option passed explicitly
         \* cls 9 = a class that is no exception (int); inst = an exception *instance*
    [] o = "violation_type" -> {V("none", 0), V("exc", 1), V("exc", 2), V("warn", 1), V("cls", 9), V("inst", 1)}
    [] o = "is_color" -> {V("none", 0), V("bool", 0), V("bool", 1), V("int", 0), V("int", 1), V("str", 0)}
    [] o = "hint_overrides" ->
         {V("fd", 0),      \* FrozenDict()
          V("fd", 1),      \* FrozenDict({A: B})
          V("fd", 2),      \* exactly the numeric-tower overrides
          V("fd", 3),      \* FrozenDict({float: int})  -- conflicts with the tower
          V("fd", 4),      \* FrozenDict({A: B} + tower)
          V("fd", 5),      \* {float: float | int (as the tower), complex: int}  -- complex conflicts with the tower
          V("dict", 1)}    \* a plain dict: unhashable, not a FrozenDict
    [] o = "claw_skip_package_names" ->
         {V("tuple", 0), V("tuple", 1), V("fset", 1), V("list", 1), V("tuple", 7)}
         \* tuple 7 = a tuple holding a non-identifier; list = unhashable collection
    [] o = "warning_cls_on_decorator_exception" -> {V("wcls", 0), V("none", 0), V("warn", 1), V("cls", 9)}

Numeric(a) == a.ty \in {"bool", "int", "float"}
\* Python's ==, as a dict probe sees it
PyEq(a, b) == IF Numeric(a) /\ Numeric(b) THEN a.v = b.v ELSE a = b
Hashable(a) == a.ty \notin {"dict", "list"}

\* ---- validation (die_if_conf_kwargs_invalid + default_conf_kwargs), by type -------
ValidVal(o, a) ==
  CASE o \in BoolOpts -> a.ty = "bool"
    [] o \in EnumOpts -> a.ty = "enum"
    [] o \in ExcOpts  -> a.ty \in {"none", "exc", "warn", "dflt"}      \* Warning is an Exception subclass
    [] o = "violation_type" -> a.ty \in {"none", "exc", "warn"}
    [] o = "is_color" -> a.ty \in {"none", "bool"}
    [] o = "hint_overrides" -> a.ty = "fd"
    [] o = "claw_skip_package_names" -> a \in {V("tuple", 0), V("tuple", 1), V("fset", 1)}
    [] o = "warning_cls_on_decorator_exception" -> a.ty \in {"wcls", "none", "warn"}

DefaultKw == [o \in Opts |-> Default(o)]

\* default_conf_kwargs: violation_*_type := violation_type or the documented default
Defaulted(kw) ==
  [o \in Opts |->
     IF o \in ExcOpts /\ kw[o].ty = "none"
     THEN (IF kw["violation_type"].ty # "none" THEN kw["violation_type"] ELSE V("dflt", 0))
     ELSE kw[o]]

TowerConflict(kw) == kw["is_pep484_tower"] = V("bool", 1) /\ kw["hint_overrides"] \in {V("fd", 3), V("fd", 5)}
\* sanify_conf_kwargs: merge the tower into hint_overrides
MergeTower(ov) == CASE ov = V("fd", 0) -> V("fd", 2) [] ov = V("fd", 1) -> V("fd", 4) [] OTHER -> ov
Sanified(kw) ==
  IF kw["is_pep484_tower"] = V("bool", 1)
  THEN [kw EXCEPT !["hint_overrides"] = MergeTower(@)] ELSE kw

AllValid(kw) == \A o \in Opts : ValidVal(o, kw[o])
Canon(kw) == Sanified(Defaulted(kw))          \* effective option values

\* what the public properties read back: the private "unpassed" marker of
\* warning_cls_on_decorator_exception reads back as None (documented)
Readback(c) == [c EXCEPT !["warning_cls_on_decorator_exception"] = IF @ = V("wcls", 0) THEN V("none", 0) ELSE @]

\* a result: exception, or an object with an identity (id) whose options read back as conf
Raise == [kind |-> "raise", id |-> DefaultKw, conf |-> DefaultKw]
TypeErr == [kind |-> "typeerror", id |-> DefaultKw, conf |-> DefaultKw]
Obj(i, c) == [kind |-> "conf", id |-> i, conf |-> c]

(* ---- declarative: what C17 demands, independent of history ---------------------- *)
\* equal effective options <=> one object; options read back as the effective values
Ideal(kw) == IF AllValid(kw) /\ ~TowerConflict(kw) THEN Obj(Canon(kw), Readback(Canon(kw))) ELSE Raise

(* ---- faithful state machine ------------------------------------------------------ *)
VARIABLES memo,    \* set of <<key, id of the stored instance>>   (the id determines the instance)
          last,    \* keyword arguments of the last call
          res,     \* its result
          n        \* calls so far
vars == <<memo, last, res, n>>

KeyEq(k1, k2) ==
  IF KeyMode = "typed" THEN k1 = k2
  ELSE \A o \in Opts : PyEq(k1[o], k2[o])

Lookup(k) == { e \in memo : KeyEq(e[1], k) }
\* identity of the instance created for kw
NewId(kw) == IF KeyMode = "typed" THEN Canon(kw) ELSE kw

Init == /\ memo = {<<DefaultKw, NewId(DefaultKw)>>} \cup
                  (IF KeyMode = "typed" THEN {<<Canon(DefaultKw), Canon(DefaultKw)>>} ELSE {})
        /\ last = DefaultKw /\ res = Obj(NewId(DefaultKw), Readback(Canon(DefaultKw))) /\ n = 0
        \* BEARTYPE_CONF_DEFAULT is created when beartype is imported

Make(kw) ==
  /\ n < MaxCalls /\ n' = n + 1 /\ last' = kw
  /\ IF \E o \in Opts : ~Hashable(kw[o])
     THEN \* hashing the raw key fails
          /\ res' = IF KeyMode = "typed" THEN Raise ELSE TypeErr
          /\ UNCHANGED memo
     ELSE IF Lookup(kw) # {}
     THEN \* probe hit: returned before any validation
          /\ LET i == (CHOOSE e \in Lookup(kw) : TRUE)[2] IN res' = Obj(i, Readback(Canon(i)))
          /\ UNCHANGED memo
     ELSE IF ~AllValid(kw) \/ TowerConflict(kw)
     THEN res' = Raise /\ UNCHANGED memo
     ELSE \* typed: canonical probe, store, alias the raw key
          \* raw (0.23.0): a new instance per distinct raw key
          /\ res' = Obj(NewId(kw), Readback(Canon(kw)))
          /\ memo' = memo \cup {<<kw, NewId(kw)>>} \cup
                     (IF KeyMode = "typed" THEN {<<Canon(kw), Canon(kw)>>} ELSE {})

VaryFns == { f \in [VaryOpts -> UNION {Vals(o) : o \in VaryOpts}] : \A o \in VaryOpts : f[o] \in Vals(o) }
Choices == { [o \in Opts |-> IF o \in VaryOpts THEN f[o] ELSE Default(o)] : f \in VaryFns }
Next == \E kw \in Choices : Make(kw)
Spec == Init /\ [][Next]_vars

(* ---- properties ------------------------------------------------------------------- *)
\* the call behaves as C17 demands, whatever was created before
Uniform == res = Ideal(last)
\* never anything but BeartypeConfParamException
NoLeak == res.kind # "typeerror"
\* options that repr() lists: exactly those whose effective value differs from the default's
Listed(i) == { o \in Opts : Canon(i)[o] # Canon(DefaultKw)[o] }
\* BeartypeConf(**conf.kwargs) is conf : the effective options are a key of the same instance
RoundTrip == \A e \in memo : \E f \in Lookup(Canon(e[2])) : f[2] = e[2]
\* only valid argument tuples are ever keys, and each maps to the instance of its effective options
MemoSound == \A e \in memo : AllValid(e[1]) /\ ~TowerConflict(e[1]) /\ Canon(e[2]) = Canon(e[1])
=============================================================================
