#!/usr/bin/env python3
"""Regenerate /verif/MANIFEST.json from the table below (single source of truth)."""
import json
import os

ROOT = os.path.dirname(os.path.dirname(os.path.abspath(__file__)))

# id -> (spec modules, technique, level text, level note, design ref)
CHECKS = {
    "C17": (
        "spec/Conf.tla + spec/trace/ConfTrace.tla",
        "TLA+ model of BeartypeConf.__new__ (typed/effective-key memo) checked by TLC against the declarative "
        "Ideal; every edge of the state graphs replayed into the real constructor in forked interpreters; "
        "recorded random histories over all 17 options validated by a TLC trace spec",
        "TLC explores all creation histories (<=2-3 calls) over valid, invalid and look-alike values of each option "
        "group and proves Make = Ideal on the model; conformance replays every model edge on the real class "
        "(outcome class, identity classes, read-back of every option, ==/hash, repr, kwargs round trip) and "
        "validates long recorded histories against the same spec, so a change to the keying, validation or "
        "defaulting logic is seen as a rejected trace or a mismatching edge.",
        "Trusted: TLC, the value catalogue relating abstract option values to Python objects, fork isolation. "
        "Equality of configurations is read as equality of effective (defaulted, sanified) options.",
        "DESIGN.md §4 C17",
    ),
}

_SEM = "spec/Semantics.tla + spec/MC_Semantics.tla"
_SEM_NOTE = ("Trusted: TLC; the concretiser/projection verifkit/bind/sem.py relating abstract hints and objects to real "
             "ones; the bounded grammar (container length <= L, depth <= 2) with stretching to 10..20000 items; the "
             "draw abstraction r mod lcm(1..L) (checked as a model lemma and by lifted representatives).")
CHECKS.update({
    "C01": (_SEM, "TLA+ denotational semantics (Sat) vs transcribed generated check (Chk) model-checked by TLC over "
            "all hints x objects x draw residues x configurations; TLC-emitted case table replayed into every real "
            "entry point (conformance)",
            "TLC proves Sat(Pub(h)) => Chk(h,x,r,conf) for every hint of the bounded grammar, every object of the "
            "universe, every draw residue and configuration variant (and kills mutants of the generated check); every "
            "enumerated case is then replayed on the real is_bearable / die_if_unbearable / TypeHint / decorated "
            "parameter and return checks under all residues, several hint spellings and stretched containers, so a "
            "generated-code change that rejects a conforming object for some nesting shape or draw is seen.",
            _SEM_NOTE, "DESIGN.md §3, §4 C01"),
    "C02": (_SEM, "TLC-computed MustReject / Weak / index-reachability vectors (declarative operators of Semantics.tla) "
            "replayed against real verdict vectors over all draw residues; stretched sequences with one bad index",
            "TLC proves on the model that MustReject => rejected under every draw, every sequence index is reachable, "
            "is_random=False inspects item 0, accepted => Weak, ignorable children accept everything; the same vectors "
            "are demanded of the real entry points for every enumerated case and for sequences of 10..20000 items over "
            "all residues, with the sampler under harness control (one draw per check).",
            _SEM_NOTE + " 'Item i violates' is read as MustReject(item hint, item i).", "DESIGN.md §4 C02"),
    "C03": (_SEM, "cases from the TLC case table; relational conformance of the six real entry points per draw; "
            "signal class checked against the violation-option lattice",
            "For every enumerated (hint, conf, object, draw) case the six entry points must agree; rejections must be "
            "exactly the configured class (defaults, custom exception, Warning => one warning and the call proceeds, "
            "per-kind overrides, verbosity/colour variants), name the hint and carry the rejected object as first "
            "culprit; any other exception (desynchronisation, builtin) is a violation.",
            _SEM_NOTE, "DESIGN.md §4 C03"),
    "C18": (_SEM, "TLC computes Rewrite(h, conf) and its denotation; metamorphic conformance: real verdict under the "
            "option vs real verdict of the hand-rewritten hint, per object and draw",
            "For every hint containing float/complex/A at any position of the bounded grammar, the verdict vector under "
            "is_pep484_tower / hint_overrides equals that of the TLC-rewritten hint under the default configuration and "
            "respects the rewritten meaning (Sat / MustReject); violation-type options never change a verdict.",
            _SEM_NOTE, "DESIGN.md §4 C18"),
})

NOT_YET = "check not built yet in this round; the specification module is planned in DESIGN.md §4"


def main():
    props = [json.loads(l) for l in open(os.path.join(ROOT, "properties.jsonl"))]
    checks, na = [], []
    for p in props:
        pid = p["id"]
        if pid in CHECKS:
            spec, tech, text, note, ref = CHECKS[pid]
            checks.append({
                "property_id": pid,
                "quick_cmd": f"./check {pid} --tier quick",
                "thorough_cmd": f"./check {pid} --tier thorough",
                "evidence_file": f"/verif/evidence/{pid}.json",
                "replay_cmd_template": f"./check {pid} --replay {{path}}",
                "engine": "tlc+conformance",
                "level_claimed": {"category": "model_checking", "text": text, "design_ref": ref},
                "level_note": note,
                "technique": tech,
            })
        else:
            na.append({"property_id": pid, "reason": NA.get(pid, NOT_YET)})
    man = {
        "version": 1,
        "setup_cmd": "./setup.sh",
        "hooks": {
            "guard": "BEARTYPE_VERIF",
            "enable": "no in-repo hooks: checks instrument the process from outside (PYTHONPATH=/repo, "
                      "patched random.getrandbits / threading.Lock factories / importlib functions, spy containers); "
                      "./check exports BEARTYPE_VERIF=1 for future add-only probes",
            "baseline_off_cmd": "cd /repo && /venv/bin/python -m pytest -ra -q -p no:cacheprovider --timeout=900 "
                                "--continue-on-collection-errors",
            "source_commits": [],
            "add_only": True,
        },
        "engines": [{
            "name": "tlc+conformance",
            "path": "/verif/check",
            "serves_properties": sorted(CHECKS),
            "kind_free_text": "explicit TLA+ specifications under /verif/spec model-checked with TLC 1.8; bound to "
                              "the implementation by replaying TLC-generated behaviours / case tables into the real "
                              "code and by validating recorded executions against trace specifications",
        }],
        "checks": checks,
        "not_applicable": na,
        "notes": "Single CLI ./check <id> --tier quick|thorough; exit 0/1/2 per DESIGN.md §2.7. "
                 "KNOWN_FINDINGS.jsonl lists recorded defects (suppressed by exact key) and fixed: entries.",
    }
    with open(os.path.join(ROOT, "MANIFEST.json"), "w") as fh:
        json.dump(man, fh, indent=1)
    try:
        import jsonschema
        jsonschema.validate(man, json.load(open("/root/.vp/MANIFEST.schema.json")))
        print("MANIFEST.json valid;", len(checks), "checks,", len(na), "not applicable")
    except ImportError:
        print("written (jsonschema unavailable)")


NA = {}

if __name__ == "__main__":
    main()
