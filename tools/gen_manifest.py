#!/usr/bin/env python3
"""Regenerate /verif/MANIFEST.json from tools/checks/Cxx.json (one file per claimed property)
and tools/not_applicable.json (reasons for unclaimed ones)."""
import glob
import json
import os

ROOT = os.path.dirname(os.path.dirname(os.path.abspath(__file__)))
NOT_YET = "check not built yet in this round; the specification module is planned in DESIGN.md §4"


def main():
    checks_meta = {os.path.basename(f)[:-5]: json.load(open(f)) for f in glob.glob(os.path.join(ROOT, "tools/checks/C*.json"))}
    na_path = os.path.join(ROOT, "tools/not_applicable.json")
    na_reasons = json.load(open(na_path)) if os.path.exists(na_path) else {}
    props = [json.loads(l) for l in open(os.path.join(ROOT, "properties.jsonl"))]
    checks, na = [], []
    for p in props:
        pid = p["id"]
        m = checks_meta.get(pid)
        if m:
            checks.append({
                "property_id": pid,
                "quick_cmd": f"./check {pid} --tier quick",
                "thorough_cmd": f"./check {pid} --tier thorough",
                "evidence_file": f"/verif/evidence/{pid}.json",
                "replay_cmd_template": f"./check {pid} --replay {{path}}",
                "engine": "tlc+conformance",
                "level_claimed": {"category": m.get("category", "model_checking"), "text": m["text"],
                                  "design_ref": m["design_ref"]},
                "level_note": m["note"] + " Specification: " + m["spec"] + ".",
                "technique": m["technique"],
            })
        else:
            na.append({"property_id": pid, "reason": na_reasons.get(pid, NOT_YET)})
    hooks_path = os.path.join(ROOT, "tools/hooks.json")
    hooks_extra = json.load(open(hooks_path)) if os.path.exists(hooks_path) else {}
    man = {
        "version": 1,
        "setup_cmd": "./setup.sh",
        "hooks": {
            "guard": "BEARTYPE_VERIF",
            "enable": "checks instrument the process from outside (PYTHONPATH=/repo, patched random.getrandbits / "
                      "threading.Lock factories / importlib functions, spy containers); ./check exports "
                      "BEARTYPE_VERIF=1 for the add-only in-repo probes listed in source_commits (if any)",
            "baseline_off_cmd": "cd /repo && /venv/bin/python -m pytest -ra -q -p no:cacheprovider --timeout=900 "
                                "--continue-on-collection-errors",
            "source_commits": hooks_extra.get("source_commits", []),
            "add_only": True,
        },
        "engines": [{
            "name": "tlc+conformance",
            "path": "/verif/check",
            "serves_properties": sorted(checks_meta),
            "kind_free_text": "explicit TLA+ specifications under /verif/spec model-checked with TLC 1.8; bound to "
                              "the implementation by replaying TLC-generated behaviours / case tables into the real "
                              "code and by validating recorded executions against trace specifications",
        }],
        "checks": checks,
        "not_applicable": na,
        "notes": "Single CLI ./check <id> --tier quick|thorough; exit 0/1/2 per DESIGN.md §2.7. "
                 "KNOWN_FINDINGS.jsonl lists recorded defects (suppressed by exact key) and fixed: entries.",
    }
    with open(os.path.join(ROOT, "MANIFEST.json"), "w") as fh:
        json.dump(man, fh, indent=1)
    import jsonschema
    jsonschema.validate(man, json.load(open("/root/.vp/MANIFEST.schema.json")))
    print("MANIFEST.json valid;", len(checks), "checks,", len(na), "not applicable")


if __name__ == "__main__":
    main()
