#!/usr/bin/env python3
"""Regenerate /verif/MANIFEST.json from the table below (single source of truth)."""
import json
import os

ROOT = os.path.dirname(os.path.dirname(os.path.abspath(__file__)))

# id -> (spec modules, technique, level text, level note, design ref)
CHECKS = {
    "C17": (
        "spec/Conf.tla + spec/trace/ConfTrace.tla",
        "TLA+ model of BeartypeConf.__new__ (typed/effective-key memo) checked by TLC against the declarative "
        "Ideal; every edge of the state graphs replayed into the real constructor in forked interpreters; "
        "recorded random histories over all 17 options validated by a TLC trace spec",
        "TLC explores all creation histories (<=2-3 calls) over valid, invalid and look-alike values of each option "
        "group and proves Make = Ideal on the model; conformance replays every model edge on the real class "
        "(outcome class, identity classes, read-back of every option, ==/hash, repr, kwargs round trip) and "
        "validates long recorded histories against the same spec, so a change to the keying, validation or "
        "defaulting logic is seen as a rejected trace or a mismatching edge.",
        "Trusted: TLC, the value catalogue relating abstract option values to Python objects, fork isolation. "
        "Equality of configurations is read as equality of effective (defaulted, sanified) options.",
        "DESIGN.md §4 C17",
    ),
}

NOT_YET = "check not built yet in this round; the specification module is planned in DESIGN.md §4"


def main():
    props = [json.loads(l) for l in open(os.path.join(ROOT, "properties.jsonl"))]
    checks, na = [], []
    for p in props:
        pid = p["id"]
        if pid in CHECKS:
            spec, tech, text, note, ref = CHECKS[pid]
            checks.append({
                "property_id": pid,
                "quick_cmd": f"./check {pid} --tier quick",
                "thorough_cmd": f"./check {pid} --tier thorough",
                "evidence_file": f"/verif/evidence/{pid}.json",
                "replay_cmd_template": f"./check {pid} --replay {{path}}",
                "engine": "tlc+conformance",
                "level_claimed": {"category": "model_checking", "text": text, "design_ref": ref},
                "level_note": note,
                "technique": tech,
            })
        else:
            na.append({"property_id": pid, "reason": NA.get(pid, NOT_YET)})
    man = {
        "version": 1,
        "setup_cmd": "./setup.sh",
        "hooks": {
            "guard": "BEARTYPE_VERIF",
            "enable": "no in-repo hooks: checks instrument the process from outside (PYTHONPATH=/repo, "
                      "patched random.getrandbits / threading.Lock factories / importlib functions, spy containers); "
                      "./check exports BEARTYPE_VERIF=1 for future add-only probes",
            "baseline_off_cmd": "cd /repo && /venv/bin/python -m pytest -ra -q -p no:cacheprovider --timeout=900 "
                                "--continue-on-collection-errors",
            "source_commits": [],
            "add_only": True,
        },
        "engines": [{
            "name": "tlc+conformance",
            "path": "/verif/check",
            "serves_properties": sorted(CHECKS),
            "kind_free_text": "explicit TLA+ specifications under /verif/spec model-checked with TLC 1.8; bound to "
                              "the implementation by replaying TLC-generated behaviours / case tables into the real "
                              "code and by validating recorded executions against trace specifications",
        }],
        "checks": checks,
        "not_applicable": na,
        "notes": "Single CLI ./check <id> --tier quick|thorough; exit 0/1/2 per DESIGN.md §2.7. "
                 "KNOWN_FINDINGS.jsonl lists recorded defects (suppressed by exact key) and fixed: entries.",
    }
    with open(os.path.join(ROOT, "MANIFEST.json"), "w") as fh:
        json.dump(man, fh, indent=1)
    try:
        import jsonschema
        jsonschema.validate(man, json.load(open("/root/.vp/MANIFEST.schema.json")))
        print("MANIFEST.json valid;", len(checks), "checks,", len(na), "not applicable")
    except ImportError:
        print("written (jsonschema unavailable)")


NA = {}

if __name__ == "__main__":
    main()
