#!/bin/sh
# tools/confirm_seed.sh <PROP> <seed-out-dir> [checks...]
# Confirms a seeded change: applies <out>/patch.diff to a scratch worktree of /repo HEAD, runs the
# demonstration on both trees, the pinned suite on the changed tree, and the registered checks against it.
P="$1"; OUT="$2"; shift 2; CHECKS="${*:-$P}"
WT="/tmp/cs-$P-$$"
LOG="/tmp/cs-$P.log"
: > "$LOG"
git -C /repo worktree add --detach "$WT" HEAD -q >>"$LOG" 2>&1 || exit 2
if ! git -C "$WT" apply "$OUT/patch.diff" >>"$LOG" 2>&1; then echo "PATCH-DOES-NOT-APPLY" >>"$LOG"; git -C /repo worktree remove --force "$WT"; exit 2; fi
echo "== demo on unchanged tree" >>"$LOG"
( cd "$OUT" && PYTHONPATH=/repo timeout 600 /venv/bin/python demo.py ) >>"$LOG" 2>&1; echo "demo_unchanged_rc=$?" >>"$LOG"
echo "== demo on changed tree" >>"$LOG"
( cd "$OUT" && PYTHONPATH="$WT" timeout 600 /venv/bin/python demo.py ) >>"$LOG" 2>&1; echo "demo_changed_rc=$?" >>"$LOG"
for c in $CHECKS; do
  echo "== check $c against changed tree" >>"$LOG"
  ( cd /verif && VERIF_REPO="$WT" timeout 3600 ./check "$c" --tier quick ) > "/tmp/cs-$P-check-$c.out" 2>&1; rc=$?
  echo "check_${c}_rc=$rc" >>"$LOG"
  grep -m 3 -A1 "^VIOLATION" "/tmp/cs-$P-check-$c.out" >>"$LOG"
  tail -2 "/tmp/cs-$P-check-$c.out" >>"$LOG"
done
echo "== pinned suite on changed tree" >>"$LOG"
[ -n "$SKIP_SUITE" ] || ( cd "$WT" && /venv/bin/python -m pytest -q -p no:cacheprovider --timeout=900 --continue-on-collection-errors beartype_test 2>&1 | tail -22 ) >>"$LOG" 2>&1
git -C /repo worktree remove --force "$WT" >>"$LOG" 2>&1
echo DONE >>"$LOG"
